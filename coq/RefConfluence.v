(* RefConfluence.v — the denotation of RefDen.v describes EVERY schedule, up to interleaving.
   [sync_den] covers the one schedule in which every service completes from inside its own
   notification.  Here: for an oracle that does not depend on the query counter
   ([counter_free orc], e.g. [corc rho := fun _ v => rho v], or [orc_of [x]]), for ANY choice
   of immediate completions [imm] and ANY script of API calls (completions in any order, junk,
   duplicates, repeated start(), registrations, observers), the events issued over the whole
   history of an order that completed are a permutation of
       production task started, den_block of its body, production task finished.
   Contents:
    0  fuel monotonicity of [den_*]; [LogD]: the erased events a computation appended to the log;
       [trace_devs]: the erased events of a history (function 0's notifications + queries)
    1  counter-free oracle: guards / limits evaluate the same whenever evaluated
    2  the denotation as predicates [DS]/[DB]/[DL]/[DLoop] (some fuel, every counter), with
       constructor and inversion lemmas; [den_const]: [den_*] does not depend on the counter
    3  the residual denotation [RS]/[RB]/[RL] (relation on program tree x state tree) and its
       executable form [rest_stmt]/[rest_block]/[rest_list] with [rest_sound]
    4  [start_conf]:   emitted by a start ++ residual of the new state  ~  denotation
    5  [deliver_conf]: emitted by a delivery ++ residual afterwards     ~  residual before
    5b [start_fwd]/[deliver_fwd]: the residual exists whenever the denotation does
    6  [api_conf]/[script_conf]/[script_conf_gen]: the same for one API call / a script
    7  theorems [confluence], [confluence_any_fuel], [confluence_last], counting corollaries,
       [confluence_prefix] (histories that are not complete) and [confluence_prefix_count]
    8  C05: literal counting loop under every schedule (exactly N / never more than N)
    9  non-vacuity example (vm_compute)        10  the oracle hypothesis is needed (example)
    11 run cases of the harness                12  [dev_eq_dec] and the count_occ form
    13 a top-level while loop with a true guard: the order never completes
   (~ is Permutation: branches of a Parallel / instances of a parallel loop interleave.)
   Proof file. *)
From PFDL Require Import RefSem RunCase Monitors RefBase RefClosure RefShape RefDen RefC08 RefProgress RefC01.
From Coq Require Import Lia Permutation.

(* the oracle that answers from one fixed valuation, whatever the query counter *)
Definition corc (rho : name -> option value) : oracle := fun _ v => rho v.

(* more generally: an oracle whose answers do not depend on the query counter *)
Definition counter_free (orc : oracle) : Prop := forall q q' v, orc q v = orc q' v.

Lemma corc_counter_free : forall rho, counter_free (corc rho).
Proof. intros rho q q' v. reflexivity. Qed.

(* ================================================================================== *)
(* 0. generalities: fuel monotonicity of the denotation, permutation bookkeeping       *)
(* ================================================================================== *)

Section Mono.
  Variable orc : oracle.

  Lemma den_mono : forall f,
      (forall ie s q r, den_stmt orc f ie s q = Ok r -> den_stmt orc (S f) ie s q = Ok r) /\
      (forall ie ss i q r, den_block orc f ie ss i q = Ok r -> den_block orc (S f) ie ss i q = Ok r) /\
      (forall l q r, den_list orc f l q = Ok r -> den_list orc (S f) l q = Ok r) /\
      (forall ie s k q r, den_loop orc f ie s k q = Ok r -> den_loop orc (S f) ie s k q = Ok r).
  Proof.
    induction f as [|f IH]; [split; [|split; [|split]]; intros; discriminate|].
    destruct IH as (IHs & IHb & IHl & IHt).
    split; [|split; [|split]].
    - intros ie s q r H. rewrite den_stmt_S in H. rewrite den_stmt_S.
      destruct s as [n at_ ins|t at_ ins body|bs|e p fl|e b|v lim b|v lim c].
      + exact H.
      + destruct (den_block orc f [] body 0 q) as [[evs q']| | |] eqn:E; cbn [rbind] in H; try discriminate.
        rewrite (IHb _ _ _ _ _ E). exact H.
      + apply IHl. exact H.
      + destruct (den_decide orc e q) as [[[b d] q1]| | |]; cbn [rbind] in *; try discriminate.
        destruct (den_block orc f ie (if b then p else fl) 0 q1) as [[evs q2]| | |] eqn:E; cbn [rbind] in H; try discriminate.
        rewrite (IHb _ _ _ _ _ E). exact H.
      + apply IHt. exact H.
      + apply IHt. exact H.
      + destruct (den_limit orc lim q) as [[[n d] q1]| | |]; cbn [rbind] in *; try discriminate.
        destruct (den_list orc f (insts ie v c (Z.to_nat n)) q1) as [[evs q2]| | |] eqn:E; cbn [rbind] in H; try discriminate.
        rewrite (IHl _ _ _ E). exact H.
    - intros ie ss i q r H. rewrite den_block_S in H. rewrite den_block_S.
      destruct (nth_error ss i) as [s1|]; [|exact H].
      destruct (den_stmt orc f ie s1 q) as [[e1 q1]| | |] eqn:E1; cbn [rbind] in H; try discriminate.
      rewrite (IHs _ _ _ _ E1). cbn [rbind].
      destruct (den_block orc f ie ss (S i) q1) as [[e2 q2]| | |] eqn:E2; cbn [rbind] in H; try discriminate.
      rewrite (IHb _ _ _ _ _ E2). exact H.
    - intros l q r H. rewrite den_list_S in H. rewrite den_list_S.
      destruct l as [|[ie b] rr]; [exact H|].
      destruct (den_stmt orc f ie b q) as [[e1 q1]| | |] eqn:E1; cbn [rbind] in H; try discriminate.
      rewrite (IHs _ _ _ _ E1). cbn [rbind].
      destruct (den_list orc f rr q1) as [[e2 q2]| | |] eqn:E2; cbn [rbind] in H; try discriminate.
      rewrite (IHl _ _ _ E2). exact H.
    - intros ie s k q r H. rewrite den_loop_S in H. rewrite den_loop_S.
      destruct s as [n at_ ins|t at_ ins body|bs|e p fl|e b|v lim b|v lim c]; try discriminate.
      + destruct (den_decide orc e q) as [[[bb d] q1]| | |]; cbn [rbind] in *; try discriminate.
        destruct bb; [|exact H].
        destruct (den_block orc f ie b 0 q1) as [[e1 q2]| | |] eqn:E1; cbn [rbind] in H; try discriminate.
        rewrite (IHb _ _ _ _ _ E1). cbn [rbind].
        destruct (den_loop orc f ie (XWhile e b) (S k) q2) as [[e2 q3]| | |] eqn:E2; cbn [rbind] in H; try discriminate.
        rewrite (IHt _ _ _ _ _ E2). exact H.
      + destruct (den_limit orc lim q) as [[[n d] q1]| | |]; cbn [rbind] in *; try discriminate.
        destruct (Z.of_nat k <? n)%Z; [|exact H].
        destruct (den_block orc f ((v, k) :: ie) b 0 q1) as [[e1 q2]| | |] eqn:E1; cbn [rbind] in H; try discriminate.
        rewrite (IHb _ _ _ _ _ E1). cbn [rbind].
        destruct (den_loop orc f ie (XCount v lim b) (S k) q2) as [[e2 q3]| | |] eqn:E2; cbn [rbind] in H; try discriminate.
        rewrite (IHt _ _ _ _ _ E2). exact H.
  Qed.

  Lemma den_stmt_le : forall f f' ie s q r, f <= f' -> den_stmt orc f ie s q = Ok r -> den_stmt orc f' ie s q = Ok r.
  Proof. intros f f' ie s q r Hle H. induction Hle; [exact H|]. apply (proj1 (den_mono _)). exact IHHle. Qed.
  Lemma den_block_le : forall f f' ie ss i q r, f <= f' -> den_block orc f ie ss i q = Ok r -> den_block orc f' ie ss i q = Ok r.
  Proof. intros f f' ie ss i q r Hle H. induction Hle; [exact H|]. apply (proj1 (proj2 (den_mono _))). exact IHHle. Qed.
  Lemma den_list_le : forall f f' l q r, f <= f' -> den_list orc f l q = Ok r -> den_list orc f' l q = Ok r.
  Proof. intros f f' l q r Hle H. induction Hle; [exact H|]. apply (proj1 (proj2 (proj2 (den_mono _)))). exact IHHle. Qed.
  Lemma den_loop_le : forall f f' ie s k q r, f <= f' -> den_loop orc f ie s k q = Ok r -> den_loop orc f' ie s k q = Ok r.
  Proof. intros f f' ie s k q r Hle H. induction Hle; [exact H|]. apply (proj2 (proj2 (proj2 (den_mono _)))). exact IHHle. Qed.

  (* the result does not depend on the fuel, once there is enough of it *)
  Lemma den_block_det : forall f1 f2 ie ss i q r1 r2,
      den_block orc f1 ie ss i q = Ok r1 -> den_block orc f2 ie ss i q = Ok r2 -> r1 = r2.
  Proof.
    intros f1 f2 ie ss i q r1 r2 H1 H2.
    apply (den_block_le _ (Nat.max f1 f2)) in H1; [|apply Nat.le_max_l].
    apply (den_block_le _ (Nat.max f1 f2)) in H2; [|apply Nat.le_max_r].
    congruence.
  Qed.
  Lemma den_stmt_det : forall f1 f2 ie s q r1 r2,
      den_stmt orc f1 ie s q = Ok r1 -> den_stmt orc f2 ie s q = Ok r2 -> r1 = r2.
  Proof.
    intros f1 f2 ie s q r1 r2 H1 H2.
    apply (den_stmt_le _ (Nat.max f1 f2)) in H1; [|apply Nat.le_max_l].
    apply (den_stmt_le _ (Nat.max f1 f2)) in H2; [|apply Nat.le_max_r].
    congruence.
  Qed.
End Mono.

Lemma Forall2_len : forall A B (P : A -> B -> Prop) l1 l2, Forall2 P l1 l2 -> List.length l1 = List.length l2.
Proof. intros A B P l1 l2 H. induction H; cbn; congruence. Qed.

(* ---- permutations of concatenations ---- *)
Ltac pnorm := repeat first [rewrite <- app_assoc | rewrite app_nil_r | progress cbn [app]].

(* ---- what a computation appended to the log, as erased events; unlike [LogR] this does
   not ask the running flag to stay (start() sets it, the last completion clears it) ---- *)
Definition LogD (E : list dev) (g g' : G) : Prop :=
  g_ls g' = g_ls g /\ g_obs g' = g_obs g /\
  exists evs, g_log g' = rev (flat_map (render (g_ls g) (g_obs g)) evs) ++ g_log g /\ map erase evs = E.

Lemma LogD_pure : forall g g', g_ls g' = g_ls g -> g_obs g' = g_obs g -> g_log g' = g_log g -> LogD [] g g'.
Proof. intros g g' H1 H2 H3. split; [exact H1|]. split; [exact H2|]. exists []. split; [exact H3|reflexivity]. Qed.

Lemma LogD_refl : forall g, LogD [] g g.
Proof. intro g. apply LogD_pure; reflexivity. Qed.

Lemma LogD_app : forall E1 E2 a b c, LogD E1 a b -> LogD E2 b c -> LogD (E1 ++ E2) a c.
Proof.
  intros E1 E2 a b c (A1 & A2 & e1 & A3 & A4) (B1 & B2 & e2 & B3 & B4).
  split; [congruence|]. split; [congruence|]. exists (e1 ++ e2). split.
  - rewrite B3, A3, A1, A2, flat_map_app, rev_app_distr, app_assoc. reflexivity.
  - rewrite map_app, A4, B4. reflexivity.
Qed.

Lemma LogD_of_LogR : forall evs g g', LogR evs g g' -> LogD (map erase evs) g g'.
Proof. intros evs g g' (H1 & H2 & _ & H4). split; [exact H1|]. split; [exact H2|]. exists evs. split; [exact H4|reflexivity]. Qed.

Lemma LogD_emit_gen : forall n flag g u g',
    emit_gen n flag g = Ok (u, g') -> LogD [DN (n_kind n) (n_name n) (n_site n) (n_params n)] g g'.
Proof.
  intros n flag g u g' H. unfold emit_gen in H. apply log_entries_eff in H.
  destruct H as (H1 & H2 & _ & _ & _ & _ & _ & _ & H9).
  split; [exact H1|]. split; [exact H2|]. exists [ANot n flag (g_running g)]. split; [|reflexivity].
  rewrite H9. cbn [flat_map render]. rewrite app_nil_r. reflexivity.
Qed.

Lemma LogD_emit : forall k nm a id c ps g u g',
    emit (mk k nm a id c ps) g = Ok (u, g') -> LogD [DN k nm a ps] g g'.
Proof. intros k nm a id c ps g u g' H. apply LogD_emit_gen in H. exact H. Qed.

Lemma fresh_t_log : forall g id g', fresh_t g = Ok (id, g') -> LogD [] g g'.
Proof. unfold fresh_t. intros g id g' H. inv H. apply LogD_pure; reflexivity. Qed.
Lemma fresh_s_log : forall g id g', fresh_s g = Ok (id, g') -> LogD [] g g'.
Proof. unfold fresh_s. intros g id g' H. inv H. apply LogD_pure; reflexivity. Qed.
Lemma tick_ss_log : forall g k g', tick_ss g = Ok (k, g') -> LogD [] g g'.
Proof. unfold tick_ss. intros g id g' H. inv H. apply LogD_pure; reflexivity. Qed.
Lemma await_log : forall id g u g', await id g = Ok (u, g') -> LogD [] g g'.
Proof. unfold await, set_awaited. intros id g u g' H. inv H. apply LogD_pure; reflexivity. Qed.
Lemma unawait_log : forall id g u g', unawait id g = Ok (u, g') -> LogD [] g g'.
Proof.
  unfold unawait, set_awaited. intros id g u g' H.
  destruct (remove_first (Nat.eqb id) (g_awaited g)); [|discriminate]. inv H. apply LogD_pure; reflexivity.
Qed.
Lemma set_running_log : forall b g u g', set_running b g = Ok (u, g') -> LogD [] g g'.
Proof. unfold set_running. intros b g u g' H. inv H. apply LogD_pure; reflexivity. Qed.

(* chain the facts [LogD _ g g1], [LogD _ g1 g2], ... found in the context *)
Ltac logd :=
  match goal with
  | |- LogD _ ?g ?g => apply LogD_refl
  | H : LogD ?E ?g ?g1 |- LogD _ ?g _ => refine (LogD_app E _ _ _ _ H _); logd
  end.

(* ---- the erased events a caller sees: what function 0 (registered once per kind by
   default, never removed) is told, and the oracle queries ---- *)
Definition dev_of_entry (e : entry) : list dev :=
  match e with
  | ENotif O n _ => [DN (n_kind n) (n_name n) (n_site n) (n_params n)]
  | EQuery v _ => [DQ v]
  | _ => []
  end.
Definition dev_of_log (l : list entry) : list dev := flat_map dev_of_entry l.
Definition trace_devs (tr : list callrec) : list dev := flat_map (fun r => dev_of_log (cr_log r)) tr.

Lemma dev_of_log_app : forall a b, dev_of_log (a ++ b) = dev_of_log a ++ dev_of_log b.
Proof. intros. unfold dev_of_log. apply flat_map_app. Qed.

Lemma dev_of_listeners : forall n r L,
    dev_of_log (map (fun l => ENotif l n r) L) =
    repeat (DN (n_kind n) (n_name n) (n_site n) (n_params n)) (count_occ Nat.eq_dec L 0).
Proof.
  intros n r L. induction L as [|l L IH]; [reflexivity|].
  cbn [map dev_of_log flat_map count_occ]. fold (dev_of_log (map (fun l0 => ENotif l0 n r) L)). rewrite IH.
  destruct l as [|l]; cbn [dev_of_entry].
  - destruct (Nat.eq_dec 0 0); [|congruence]. reflexivity.
  - destruct (Nat.eq_dec (S l) 0); [discriminate|]. reflexivity.
Qed.

Lemma dev_of_observers : forall k nm id flag obs,
    dev_of_log (map (fun o => EObs o k nm id flag) obs) = [].
Proof. intros. induction obs as [|o obs IH]; [reflexivity|]. cbn [map dev_of_log flat_map dev_of_entry app]. exact IH. Qed.

Lemma dev_of_render : forall ls obs a, lst_all ls -> dev_of_log (render ls obs a) = [erase a].
Proof.
  intros ls obs a Hl. destruct a as [n flag r|v c]; cbn [render erase]; [|reflexivity].
  rewrite dev_of_log_app, dev_of_listeners, dev_of_observers, (Hl (n_kind n)). reflexivity.
Qed.

Lemma dev_of_flat : forall ls obs evs, lst_all ls -> dev_of_log (flat_map (render ls obs) evs) = map erase evs.
Proof.
  intros ls obs evs Hl. induction evs as [|a evs IH]; [reflexivity|].
  cbn [flat_map map]. rewrite dev_of_log_app, IH, dev_of_render by exact Hl. reflexivity.
Qed.

Lemma LogD_observe : forall E g g',
    LogD E g g' -> g_log g = [] -> lst_all (g_ls g) -> dev_of_log (rev (g_log g')) = E.
Proof.
  intros E g g' (_ & _ & evs & H & <-) Hn Hl.
  rewrite H, Hn, app_nil_r, rev_involutive. apply dev_of_flat. exact Hl.
Qed.

Lemma lst_all_next : forall ls c, lst_all ls -> lst_all (next_ls ls c).
Proof.
  intros ls c Hl. destruct c; cbn [next_ls]; auto.
  destruct (existsb _ ls) eqn:Ex; [exact Hl|]. apply register_keeps; assumption.
Qed.

(* ================================================================================== *)
(* 1. the constant oracle: guards and limits evaluate the same whenever evaluated      *)
(* ================================================================================== *)
Section Const.
  Variable orc : oracle.
  Variable orc_const : counter_free orc.

  Lemma eval_const : forall ops e q w q',
      eval ops orc e q = Ok (w, q') -> forall q2, exists q2', eval ops orc e q2 = Ok (w, q2').
  Proof.
    intros ops. induction e as [x|b|s|v p|e IH|e IH|o l IHl r IHr]; intros q w q' H q2; cbn [eval] in *.
    - inv H. eexists; reflexivity.
    - inv H. eexists; reflexivity.
    - inv H. eexists; reflexivity.
    - rewrite (orc_const q2 q). destruct (orc q v) as [x|]; [|discriminate].
      destruct (resolve x p); cbn [rbind] in *; try discriminate. inv H. eexists; reflexivity.
    - destruct (eval ops orc e q) as [[v1 k1]| | |] eqn:E1; cbn [rbind] in H; try discriminate.
      destruct (IH _ _ _ E1 q2) as (k2 & E2). rewrite E2. cbn [rbind].
      destruct (truthy v1); cbn [rbind] in *; try discriminate. inv H. eexists; reflexivity.
    - eapply IH; eassumption.
    - destruct (eval ops orc l q) as [[a k1]| | |] eqn:E1; cbn [rbind] in H; try discriminate.
      destruct (IHl _ _ _ E1 q2) as (k1' & E1'). rewrite E1'. cbn [rbind].
      destruct (eval ops orc r k1) as [[b k2]| | |] eqn:E2; cbn [rbind] in H; try discriminate.
      destruct (IHr _ _ _ E2 k1') as (k2' & E2'). rewrite E2'. cbn [rbind].
      destruct (lookup_op (op_token o) ops) as [fo|]; [|discriminate].
      destruct (py_apply fo a b); cbn [rbind] in *; try discriminate. inv H. eexists; reflexivity.
  Qed.

  Lemma decide_const : forall ops e q b q',
      decide ops orc e q = Ok (b, q') -> forall q2, exists q2', decide ops orc e q2 = Ok (b, q2').
  Proof.
    intros ops e q b q' H q2. unfold decide in *.
    destruct (eval ops orc e q) as [[w k]| | |] eqn:E; cbn [rbind] in H; try discriminate.
    destruct (eval_const _ _ _ _ _ E q2) as (k2 & E2). rewrite E2. cbn [rbind].
    destruct (truthy w); cbn [rbind] in *; try discriminate. inv H. eexists; reflexivity.
  Qed.

  (* the value of a guard / of a limit, with the queries it makes *)
  Definition cdecide (e : expr) (b : bool) : Prop :=
    forall q, exists q', den_decide orc e q = Ok (b, map DQ (expr_vars e), q').
  Definition climit (lim : limit) (n : Z) (d : list dev) : Prop :=
    forall q, exists q', den_limit orc lim q = Ok (n, d, q').

  Lemma cdecide_of_run : forall e ctx g b g',
      decide_m orc e ctx g = Ok (b, g') ->
      cdecide e b /\ exists evs, LogR evs g g' /\ map erase evs = map DQ (expr_vars e).
  Proof.
    intros e ctx g b g' H. destruct (den_decide_ok _ _ _ _ _ _ H) as (evs & L & D).
    unfold den_decide in D.
    destruct (decide expected_ops orc e (g_q g)) as [[b0 k']| | |] eqn:E; try discriminate. inv D.
    split.
    - intro q. unfold den_decide. destruct (decide_const _ _ _ _ _ E q) as (q' & E'). rewrite E'.
      eexists; reflexivity.
    - exists evs. split; [exact L|congruence].
  Qed.

  Lemma climit_of_run : forall lim ctx g n g',
      read_limit orc lim ctx g = Ok (n, g') ->
      exists evs, LogR evs g g' /\ climit lim n (map erase evs).
  Proof.
    intros lim ctx g n g' H. destruct (den_limit_ok _ _ _ _ _ _ H) as (evs & L & D).
    exists evs. split; [exact L|]. intro q. destruct lim as [k|v p]; cbn [den_limit] in *.
    - injection D as D1 D2 D3. rewrite <- D1, <- D2. eexists; reflexivity.
    - rewrite (orc_const q (g_q g)). destruct (orc (g_q g) v) as [x|]; [|discriminate].
      destruct (resolve x p) as [[qq| | |]| | |]; try discriminate.
      destruct (Pos.eqb (Qden qq) 1); [|discriminate].
      injection D as D1 D2 D3. rewrite <- D1, <- D2. eexists; reflexivity.
  Qed.

  (* ================================================================================ *)
  (* 2. the denotation as a predicate (any sufficient fuel, any query counter)         *)
  (* ================================================================================ *)
  Definition DS (ie : ienv) (s : xstmt) (D : list dev) : Prop :=
    exists F, forall q, exists q', den_stmt orc F ie s q = Ok (D, q').
  Definition DB (ie : ienv) (ss : list xstmt) (i : nat) (D : list dev) : Prop :=
    exists F, forall q, exists q', den_block orc F ie ss i q = Ok (D, q').
  Definition DL (l : list (ienv * xstmt)) (D : list dev) : Prop :=
    exists F, forall q, exists q', den_list orc F l q = Ok (D, q').
  Definition DLoop (ie : ienv) (s : xstmt) (k : nat) (D : list dev) : Prop :=
    exists F, forall q, exists q', den_loop orc F ie s k q = Ok (D, q').

  Lemma DS_service : forall ie n a ins,
      DS ie (XService n a ins) [DN SS n a (subst_params ie ins); DN SF n a (subst_params ie ins)].
  Proof. intros. exists 1. intro q. eexists. reflexivity. Qed.

  Lemma DS_call : forall ie t a ins body D,
      DB [] body 0 D ->
      DS ie (XCall t a ins body) (DN TS t a (subst_params ie ins) :: D ++ [DN TF t a (subst_params ie ins)]).
  Proof.
    intros ie t a ins body D (F & H). exists (S F). intro q. destruct (H q) as (q' & E).
    rewrite den_stmt_S, E. cbn [rbind]. eexists; reflexivity.
  Qed.

  Lemma DS_par : forall ie bs D, DL (map (fun b => (ie, b)) bs) D -> DS ie (XParallel bs) D.
  Proof.
    intros ie bs D (F & H). exists (S F). intro q. destruct (H q) as (q' & E).
    rewrite den_stmt_S, E. eexists; reflexivity.
  Qed.

  Lemma DS_cond : forall ie e p fl b D,
      cdecide e b -> DB ie (if b then p else fl) 0 D -> DS ie (XCond e p fl) (map DQ (expr_vars e) ++ D).
  Proof.
    intros ie e p fl b D C (F & H). exists (S F). intro q. destruct (C q) as (q1 & E1).
    destruct (H q1) as (q2 & E2). rewrite den_stmt_S, E1. cbn [rbind]. rewrite E2. cbn [rbind].
    eexists; reflexivity.
  Qed.

  Lemma DS_while : forall ie e b D, DLoop ie (XWhile e b) 0 D -> DS ie (XWhile e b) D.
  Proof.
    intros ie e b D (F & H). exists (S F). intro q. destruct (H q) as (q' & E).
    rewrite den_stmt_S, E. eexists; reflexivity.
  Qed.

  Lemma DS_count : forall ie v lim b D, DLoop ie (XCount v lim b) 0 D -> DS ie (XCount v lim b) D.
  Proof.
    intros ie v lim b D (F & H). exists (S F). intro q. destruct (H q) as (q' & E).
    rewrite den_stmt_S, E. eexists; reflexivity.
  Qed.

  Lemma DS_parloop : forall ie v lim c n d D,
      climit lim n d -> DL (insts ie v c (Z.to_nat n)) D -> DS ie (XParLoop v lim c) (d ++ D).
  Proof.
    intros ie v lim c n d D C (F & H). exists (S F). intro q. destruct (C q) as (q1 & E1).
    destruct (H q1) as (q2 & E2). rewrite den_stmt_S, E1. cbn [rbind]. rewrite E2. cbn [rbind].
    eexists; reflexivity.
  Qed.

  Lemma DB_nil : forall ie ss i, nth_error ss i = None -> DB ie ss i [].
  Proof. intros ie ss i N. exists 1. intro q. rewrite den_block_S, N. eexists; reflexivity. Qed.

  Lemma DB_cons : forall ie ss i s D1 D2,
      nth_error ss i = Some s -> DS ie s D1 -> DB ie ss (S i) D2 -> DB ie ss i (D1 ++ D2).
  Proof.
    intros ie ss i s D1 D2 N (F1 & H1) (F2 & H2). exists (S (Nat.max F1 F2)). intro q.
    destruct (H1 q) as (q1 & E1). destruct (H2 q1) as (q2 & E2).
    apply (den_stmt_le _ _ (Nat.max F1 F2)) in E1; [|apply Nat.le_max_l].
    apply (den_block_le _ _ (Nat.max F1 F2)) in E2; [|apply Nat.le_max_r].
    rewrite den_block_S, N, E1. cbn [rbind]. rewrite E2. cbn [rbind]. eexists; reflexivity.
  Qed.

  Lemma DL_nil : DL [] [].
  Proof. exists 1. intro q. eexists; reflexivity. Qed.

  Lemma DL_cons : forall ie b r D1 D2, DS ie b D1 -> DL r D2 -> DL ((ie, b) :: r) (D1 ++ D2).
  Proof.
    intros ie b r D1 D2 (F1 & H1) (F2 & H2). exists (S (Nat.max F1 F2)). intro q.
    destruct (H1 q) as (q1 & E1). destruct (H2 q1) as (q2 & E2).
    apply (den_stmt_le _ _ (Nat.max F1 F2)) in E1; [|apply Nat.le_max_l].
    apply (den_list_le _ _ (Nat.max F1 F2)) in E2; [|apply Nat.le_max_r].
    rewrite den_list_S, E1. cbn [rbind]. rewrite E2. cbn [rbind]. eexists; reflexivity.
  Qed.

  Lemma DLoop_while_false : forall ie e body k,
      cdecide e false -> DLoop ie (XWhile e body) k (map DQ (expr_vars e)).
  Proof.
    intros ie e body k C. exists 1. intro q. destruct (C q) as (q1 & E1).
    rewrite den_loop_S, E1. cbn [rbind]. eexists; reflexivity.
  Qed.

  Lemma DLoop_while_true : forall ie e body k D1 D2,
      cdecide e true -> DB ie body 0 D1 -> DLoop ie (XWhile e body) (S k) D2 ->
      DLoop ie (XWhile e body) k (map DQ (expr_vars e) ++ D1 ++ D2).
  Proof.
    intros ie e body k D1 D2 C (F1 & H1) (F2 & H2). exists (S (Nat.max F1 F2)). intro q.
    destruct (C q) as (q1 & E0). destruct (H1 q1) as (q2 & E1). destruct (H2 q2) as (q3 & E2).
    apply (den_block_le _ _ (Nat.max F1 F2)) in E1; [|apply Nat.le_max_l].
    apply (den_loop_le _ _ (Nat.max F1 F2)) in E2; [|apply Nat.le_max_r].
    rewrite den_loop_S, E0. cbn [rbind]. rewrite E1. cbn [rbind]. rewrite E2. cbn [rbind].
    eexists; reflexivity.
  Qed.

  Lemma DLoop_count_stop : forall ie v lim body k n d,
      climit lim n d -> (Z.of_nat k <? n)%Z = false -> DLoop ie (XCount v lim body) k d.
  Proof.
    intros ie v lim body k n d C Hk. exists 1. intro q. destruct (C q) as (q1 & E1).
    rewrite den_loop_S, E1. cbn [rbind]. rewrite Hk. eexists; reflexivity.
  Qed.

  Lemma DLoop_count_go : forall ie v lim body k n d D1 D2,
      climit lim n d -> (Z.of_nat k <? n)%Z = true ->
      DB ((v, k) :: ie) body 0 D1 -> DLoop ie (XCount v lim body) (S k) D2 ->
      DLoop ie (XCount v lim body) k (d ++ D1 ++ D2).
  Proof.
    intros ie v lim body k n d D1 D2 C Hk (F1 & H1) (F2 & H2). exists (S (Nat.max F1 F2)). intro q.
    destruct (C q) as (q1 & E0). destruct (H1 q1) as (q2 & E1). destruct (H2 q2) as (q3 & E2).
    apply (den_block_le _ _ (Nat.max F1 F2)) in E1; [|apply Nat.le_max_l].
    apply (den_loop_le _ _ (Nat.max F1 F2)) in E2; [|apply Nat.le_max_r].
    rewrite den_loop_S, E0. cbn [rbind]. rewrite Hk, E1. cbn [rbind]. rewrite E2. cbn [rbind].
    eexists; reflexivity.
  Qed.

  (* the predicates are functional *)
  Lemma DB_fun : forall ie ss i D1 D2, DB ie ss i D1 -> DB ie ss i D2 -> D1 = D2.
  Proof.
    intros ie ss i D1 D2 (F1 & H1) (F2 & H2). destruct (H1 0) as (q1 & E1). destruct (H2 0) as (q2 & E2).
    pose proof (den_block_det _ _ _ _ _ _ _ _ _ E1 E2) as X. congruence.
  Qed.
  Lemma DS_fun : forall ie s D1 D2, DS ie s D1 -> DS ie s D2 -> D1 = D2.
  Proof.
    intros ie s D1 D2 (F1 & H1) (F2 & H2). destruct (H1 0) as (q1 & E1). destruct (H2 0) as (q2 & E2).
    pose proof (den_stmt_det _ _ _ _ _ _ _ _ E1 E2) as X. congruence.
  Qed.

  (* ---- with a counter-free oracle the denotation does not depend on the query counter ---- *)
  Lemma den_decide_const : forall e q b d q1,
      den_decide orc e q = Ok (b, d, q1) -> forall q2, exists q2', den_decide orc e q2 = Ok (b, d, q2').
  Proof.
    intros e q b d q1 H q2. unfold den_decide in *.
    destruct (decide expected_ops orc e q) as [[b0 k]| | |] eqn:E; try discriminate. inv H.
    destruct (decide_const _ _ _ _ _ E q2) as (k2 & E2). rewrite E2. eexists; reflexivity.
  Qed.

  Lemma den_limit_const : forall lim q n d q1,
      den_limit orc lim q = Ok (n, d, q1) -> forall q2, exists q2', den_limit orc lim q2 = Ok (n, d, q2').
  Proof.
    intros lim q n d q1 H q2. destruct lim as [k|v p]; cbn [den_limit] in *.
    - inv H. eexists; reflexivity.
    - rewrite (orc_const q2 q). destruct (orc q v) as [x|]; [|discriminate].
      destruct (resolve x p) as [[qq| | |]| | |]; try discriminate.
      destruct (Pos.eqb (Qden qq) 1); [|discriminate]. inv H. eexists; reflexivity.
  Qed.

  Lemma den_const : forall f,
      (forall ie s q D q', den_stmt orc f ie s q = Ok (D, q') ->
                           forall q2, exists q2', den_stmt orc f ie s q2 = Ok (D, q2')) /\
      (forall ie ss i q D q', den_block orc f ie ss i q = Ok (D, q') ->
                              forall q2, exists q2', den_block orc f ie ss i q2 = Ok (D, q2')) /\
      (forall l q D q', den_list orc f l q = Ok (D, q') ->
                        forall q2, exists q2', den_list orc f l q2 = Ok (D, q2')) /\
      (forall ie s k q D q', den_loop orc f ie s k q = Ok (D, q') ->
                             forall q2, exists q2', den_loop orc f ie s k q2 = Ok (D, q2')).
  Proof.
    induction f as [|f IH]; [split; [|split; [|split]]; intros; discriminate|].
    destruct IH as (IHs & IHb & IHl & IHt).
    split; [|split; [|split]].
    - intros ie s q D q' H q2. rewrite den_stmt_S in H. rewrite den_stmt_S.
      destruct s as [n at_ ins|t at_ ins body|bs|e p fl|e b|v lim b|v lim c].
      + inv H. eexists; reflexivity.
      + destruct (den_block orc f [] body 0 q) as [[evs q1]| | |] eqn:E; cbn [rbind] in H; try discriminate.
        inv H. destruct (IHb _ _ _ _ _ _ E q2) as (k & E'). rewrite E'. cbn [rbind]. eexists; reflexivity.
      + eapply IHl; eassumption.
      + destruct (den_decide orc e q) as [[[b d] q1]| | |] eqn:E0; cbn [rbind] in H; try discriminate.
        destruct (den_block orc f ie (if b then p else fl) 0 q1) as [[evs q3]| | |] eqn:E; cbn [rbind] in H; try discriminate.
        inv H. destruct (den_decide_const _ _ _ _ _ E0 q2) as (k0 & E0'). rewrite E0'. cbn [rbind].
        destruct (IHb _ _ _ _ _ _ E k0) as (k & E'). rewrite E'. cbn [rbind]. eexists; reflexivity.
      + eapply IHt; eassumption.
      + eapply IHt; eassumption.
      + destruct (den_limit orc lim q) as [[[n d] q1]| | |] eqn:E0; cbn [rbind] in H; try discriminate.
        destruct (den_list orc f (insts ie v c (Z.to_nat n)) q1) as [[evs q3]| | |] eqn:E; cbn [rbind] in H; try discriminate.
        inv H. destruct (den_limit_const _ _ _ _ _ E0 q2) as (k0 & E0'). rewrite E0'. cbn [rbind].
        destruct (IHl _ _ _ _ E k0) as (k & E'). rewrite E'. cbn [rbind]. eexists; reflexivity.
    - intros ie ss i q D q' H q2. rewrite den_block_S in H. rewrite den_block_S.
      destruct (nth_error ss i) as [s1|]; [|inv H; eexists; reflexivity].
      destruct (den_stmt orc f ie s1 q) as [[e1 q1]| | |] eqn:E1; cbn [rbind] in H; try discriminate.
      destruct (den_block orc f ie ss (S i) q1) as [[e2 q3]| | |] eqn:E2; cbn [rbind] in H; try discriminate.
      inv H. destruct (IHs _ _ _ _ _ E1 q2) as (k1 & E1'). rewrite E1'. cbn [rbind].
      destruct (IHb _ _ _ _ _ _ E2 k1) as (k2 & E2'). rewrite E2'. cbn [rbind]. eexists; reflexivity.
    - intros l q D q' H q2. rewrite den_list_S in H. rewrite den_list_S.
      destruct l as [|[ie b] rr]; [inv H; eexists; reflexivity|].
      destruct (den_stmt orc f ie b q) as [[e1 q1]| | |] eqn:E1; cbn [rbind] in H; try discriminate.
      destruct (den_list orc f rr q1) as [[e2 q3]| | |] eqn:E2; cbn [rbind] in H; try discriminate.
      inv H. destruct (IHs _ _ _ _ _ E1 q2) as (k1 & E1'). rewrite E1'. cbn [rbind].
      destruct (IHl _ _ _ _ E2 k1) as (k2 & E2'). rewrite E2'. cbn [rbind]. eexists; reflexivity.
    - intros ie s k q D q' H q2. rewrite den_loop_S in H. rewrite den_loop_S.
      destruct s as [n at_ ins|t at_ ins body|bs|e p fl|e b|v lim b|v lim c]; try discriminate.
      + destruct (den_decide orc e q) as [[[bb d] q1]| | |] eqn:E0; cbn [rbind] in H; try discriminate.
        destruct (den_decide_const _ _ _ _ _ E0 q2) as (k0 & E0'). rewrite E0'. cbn [rbind].
        destruct bb; [|inv H; eexists; reflexivity].
        destruct (den_block orc f ie b 0 q1) as [[e1 q3]| | |] eqn:E1; cbn [rbind] in H; try discriminate.
        destruct (den_loop orc f ie (XWhile e b) (S k) q3) as [[e2 q4]| | |] eqn:E2; cbn [rbind] in H; try discriminate.
        inv H. destruct (IHb _ _ _ _ _ _ E1 k0) as (k1 & E1'). rewrite E1'. cbn [rbind].
        destruct (IHt _ _ _ _ _ _ E2 k1) as (k2 & E2'). rewrite E2'. cbn [rbind]. eexists; reflexivity.
      + destruct (den_limit orc lim q) as [[[n d] q1]| | |] eqn:E0; cbn [rbind] in H; try discriminate.
        destruct (den_limit_const _ _ _ _ _ E0 q2) as (k0 & E0'). rewrite E0'. cbn [rbind].
        destruct (Z.of_nat k <? n)%Z; [|inv H; eexists; reflexivity].
        destruct (den_block orc f ((v, k) :: ie) b 0 q1) as [[e1 q3]| | |] eqn:E1; cbn [rbind] in H; try discriminate.
        destruct (den_loop orc f ie (XCount v lim b) (S k) q3) as [[e2 q4]| | |] eqn:E2; cbn [rbind] in H; try discriminate.
        inv H. destruct (IHb _ _ _ _ _ _ E1 k0) as (k1 & E1'). rewrite E1'. cbn [rbind].
        destruct (IHt _ _ _ _ _ _ E2 k1) as (k2 & E2'). rewrite E2'. cbn [rbind]. eexists; reflexivity.
  Qed.

  (* one successful evaluation, at any counter, gives the predicate *)
  Lemma DS_of_den : forall F ie s q D q', den_stmt orc F ie s q = Ok (D, q') -> DS ie s D.
  Proof. intros F ie s q D q' H. exists F. exact (proj1 (den_const F) _ _ _ _ _ H). Qed.
  Lemma DB_of_den : forall F ie ss i q D q', den_block orc F ie ss i q = Ok (D, q') -> DB ie ss i D.
  Proof. intros F ie ss i q D q' H. exists F. exact (proj1 (proj2 (den_const F)) _ _ _ _ _ _ H). Qed.
  Lemma DL_of_den : forall F l q D q', den_list orc F l q = Ok (D, q') -> DL l D.
  Proof. intros F l q D q' H. exists F. exact (proj1 (proj2 (proj2 (den_const F))) _ _ _ _ H). Qed.
  Lemma DLoop_of_den : forall F ie s k q D q', den_loop orc F ie s k q = Ok (D, q') -> DLoop ie s k D.
  Proof. intros F ie s k q D q' H. exists F. exact (proj2 (proj2 (proj2 (den_const F))) _ _ _ _ _ _ H). Qed.

  (* ---- inversion of the denotation predicates ---- *)
  Lemma DB_inv : forall ie ss i s D,
      nth_error ss i = Some s -> DB ie ss i D ->
      exists D1 D2, DS ie s D1 /\ DB ie ss (S i) D2 /\ D = D1 ++ D2.
  Proof.
    intros ie ss i s D N (F & H). destruct (H 0) as (q' & E).
    destruct F as [|F]; [discriminate|]. rewrite den_block_S, N in E.
    destruct (den_stmt orc F ie s 0) as [[e1 q1]| | |] eqn:E1; cbn [rbind] in E; try discriminate.
    destruct (den_block orc F ie ss (S i) q1) as [[e2 q2]| | |] eqn:E2; cbn [rbind] in E; try discriminate.
    inv E. exists e1, e2. split; [eapply DS_of_den; exact E1|]. split; [eapply DB_of_den; exact E2|reflexivity].
  Qed.

  Lemma DL_inv : forall ie b r D,
      DL ((ie, b) :: r) D -> exists D1 D2, DS ie b D1 /\ DL r D2 /\ D = D1 ++ D2.
  Proof.
    intros ie b r D (F & H). destruct (H 0) as (q' & E).
    destruct F as [|F]; [discriminate|]. rewrite den_list_S in E.
    destruct (den_stmt orc F ie b 0) as [[e1 q1]| | |] eqn:E1; cbn [rbind] in E; try discriminate.
    destruct (den_list orc F r q1) as [[e2 q2]| | |] eqn:E2; cbn [rbind] in E; try discriminate.
    inv E. exists e1, e2. split; [eapply DS_of_den; exact E1|]. split; [eapply DL_of_den; exact E2|reflexivity].
  Qed.

  Lemma DS_call_inv : forall ie t a ins body D,
      DS ie (XCall t a ins body) D ->
      exists Db, DB [] body 0 Db /\
                 D = DN TS t a (subst_params ie ins) :: Db ++ [DN TF t a (subst_params ie ins)].
  Proof.
    intros ie t a ins body D (F & H). destruct (H 0) as (q' & E).
    destruct F as [|F]; [discriminate|]. rewrite den_stmt_S in E.
    destruct (den_block orc F [] body 0 0) as [[e1 q1]| | |] eqn:E1; cbn [rbind] in E; try discriminate.
    inv E. exists e1. split; [eapply DB_of_den; exact E1|reflexivity].
  Qed.

  Lemma DS_par_inv : forall ie bs D, DS ie (XParallel bs) D -> DL (map (fun b => (ie, b)) bs) D.
  Proof.
    intros ie bs D (F & H). destruct (H 0) as (q' & E).
    destruct F as [|F]; [discriminate|]. rewrite den_stmt_S in E. eapply DL_of_den; exact E.
  Qed.

  Lemma DS_cond_inv : forall ie e p fl D b,
      DS ie (XCond e p fl) D -> cdecide e b ->
      exists Db, DB ie (if b then p else fl) 0 Db /\ D = map DQ (expr_vars e) ++ Db.
  Proof.
    intros ie e p fl D b (F & H) C. destruct (H 0) as (q' & E). destruct (C 0) as (q1 & E0).
    destruct F as [|F]; [discriminate|]. rewrite den_stmt_S, E0 in E. cbn [rbind] in E.
    destruct (den_block orc F ie (if b then p else fl) 0 q1) as [[e1 q2]| | |] eqn:E1; cbn [rbind] in E; try discriminate.
    inv E. exists e1. split; [eapply DB_of_den; exact E1|reflexivity].
  Qed.

  Lemma DS_while_inv : forall ie e b D, DS ie (XWhile e b) D -> DLoop ie (XWhile e b) 0 D.
  Proof.
    intros ie e b D (F & H). destruct (H 0) as (q' & E).
    destruct F as [|F]; [discriminate|]. rewrite den_stmt_S in E. eapply DLoop_of_den; exact E.
  Qed.

  Lemma DS_count_inv : forall ie v lim b D, DS ie (XCount v lim b) D -> DLoop ie (XCount v lim b) 0 D.
  Proof.
    intros ie v lim b D (F & H). destruct (H 0) as (q' & E).
    destruct F as [|F]; [discriminate|]. rewrite den_stmt_S in E. eapply DLoop_of_den; exact E.
  Qed.

  Lemma DS_parloop_inv : forall ie v lim c D n d,
      DS ie (XParLoop v lim c) D -> climit lim n d ->
      exists Dl, DL (insts ie v c (Z.to_nat n)) Dl /\ D = d ++ Dl.
  Proof.
    intros ie v lim c D n d (F & H) C. destruct (H 0) as (q' & E). destruct (C 0) as (q1 & E0).
    destruct F as [|F]; [discriminate|]. rewrite den_stmt_S, E0 in E. cbn [rbind] in E.
    destruct (den_list orc F (insts ie v c (Z.to_nat n)) q1) as [[e1 q2]| | |] eqn:E1; cbn [rbind] in E; try discriminate.
    inv E. exists e1. split; [eapply DL_of_den; exact E1|reflexivity].
  Qed.

  Lemma DLoop_while_inv : forall ie e body k D,
      DLoop ie (XWhile e body) k D -> cdecide e true ->
      exists D1 D2, DB ie body 0 D1 /\ DLoop ie (XWhile e body) (S k) D2 /\
                    D = map DQ (expr_vars e) ++ D1 ++ D2.
  Proof.
    intros ie e body k D (F & H) C. destruct (H 0) as (q' & E). destruct (C 0) as (q1 & E0).
    destruct F as [|F]; [discriminate|]. rewrite den_loop_S, E0 in E. cbn [rbind] in E.
    destruct (den_block orc F ie body 0 q1) as [[e1 q2]| | |] eqn:E1; cbn [rbind] in E; try discriminate.
    destruct (den_loop orc F ie (XWhile e body) (S k) q2) as [[e2 q3]| | |] eqn:E2; cbn [rbind] in E; try discriminate.
    inv E. exists e1, e2. split; [eapply DB_of_den; exact E1|]. split; [eapply DLoop_of_den; exact E2|reflexivity].
  Qed.

  Lemma DLoop_count_inv : forall ie v lim body k D n d,
      DLoop ie (XCount v lim body) k D -> climit lim n d -> (Z.of_nat k <? n)%Z = true ->
      exists D1 D2, DB ((v, k) :: ie) body 0 D1 /\ DLoop ie (XCount v lim body) (S k) D2 /\
                    D = d ++ D1 ++ D2.
  Proof.
    intros ie v lim body k D n d (F & H) C Hk. destruct (H 0) as (q' & E). destruct (C 0) as (q1 & E0).
    destruct F as [|F]; [discriminate|]. rewrite den_loop_S, E0 in E. cbn [rbind] in E. rewrite Hk in E.
    destruct (den_block orc F ((v, k) :: ie) body 0 q1) as [[e1 q2]| | |] eqn:E1; cbn [rbind] in E; try discriminate.
    destruct (den_loop orc F ie (XCount v lim body) (S k) q2) as [[e2 q3]| | |] eqn:E2; cbn [rbind] in E; try discriminate.
    inv E. exists e1, e2. split; [eapply DB_of_den; exact E1|]. split; [eapply DLoop_of_den; exact E2|reflexivity].
  Qed.

  (* ================================================================================ *)
  (* 3. the residual denotation: the events still to come from a state                 *)
  (* ================================================================================ *)
  Inductive RS : ienv -> xstmt -> rst -> list dev -> Prop :=
  | RS_done : forall ie s, RS ie s RDone []
  | RS_await : forall ie n a ins id,
      RS ie (XService n a ins) (RAwait id) [DN SF n a (subst_params ie ins)]
  | RS_call : forall ie t a ins body cid i st R,
      RB [] body i st R ->
      RS ie (XCall t a ins body) (RCall cid i st) (R ++ [DN TF t a (subst_params ie ins)])
  | RS_par : forall ie bs sts R,
      RL (map (fun b => (ie, b)) bs) sts R -> RS ie (XParallel bs) (RPar sts) R
  | RS_cond : forall ie e p fl (b : bool) i st R,
      RB ie (if b then p else fl) i st R -> RS ie (XCond e p fl) (RCond b i st) R
  | RS_while : forall ie e body k i st R D,
      RB ie body i st R -> DLoop ie (XWhile e body) (S k) D ->
      RS ie (XWhile e body) (RLoop k i st) (R ++ D)
  | RS_count : forall ie v lim body k i st R D,
      RB ((v, k) :: ie) body i st R -> DLoop ie (XCount v lim body) (S k) D ->
      RS ie (XCount v lim body) (RLoop k i st) (R ++ D)
  | RS_parloop : forall ie v lim c sts R,
      RL (insts ie v c (List.length sts)) sts R -> RS ie (XParLoop v lim c) (RParLoop sts) R
  (* waiting inside statement i of a block: its residual, then the statements after it *)
  with RB : ienv -> list xstmt -> nat -> rst -> list dev -> Prop :=
  | RB_intro : forall ie ss i s st R D,
      nth_error ss i = Some s -> RS ie s st R -> DB ie ss (S i) D -> RB ie ss i st (R ++ D)
  (* branches of a Parallel / instances of a parallel loop: the residuals, concatenated *)
  with RL : list (ienv * xstmt) -> list rst -> list dev -> Prop :=
  | RL_nil : RL [] [] []
  | RL_cons : forall ie b r st sts R1 R2,
      RS ie b st R1 -> RL r sts R2 -> RL ((ie, b) :: r) (st :: sts) (R1 ++ R2).

  Definition RO (ie : ienv) (ss : list xstmt) (r : option (nat * rst)) (R : list dev) : Prop :=
    match r with None => R = [] | Some (i, st) => RB ie ss i st R end.

  Lemma RL_all_done : forall l sts, wf_list l sts -> all_done sts = true -> RL l sts [].
  Proof.
    intros l sts H. induction H as [|[ie b] st l sts Hw Hl IH]; intro D.
    - constructor.
    - cbn [all_done] in D. apply andb_true_iff in D. destruct D as [D1 D2]. destruct st; try discriminate.
      change (@nil dev) with (@nil dev ++ []). constructor; [constructor|apply IH; exact D2].
  Qed.

  Lemma is_done_RDone : forall st, is_done st = true -> st = RDone.
  Proof. destruct st; cbn; intros; try discriminate; reflexivity. Qed.

  (* ---- the residual denotation as a function (same fuel discipline as [den_*]) ---- *)
  Fixpoint rest_stmt (f : nat) (ie : ienv) (s : xstmt) (st : rst) {struct f} : res (list dev) :=
    match f with
    | O => Fuel
    | S f' =>
      match s, st with
      | _, RDone => Ok []
      | XService n a ins, RAwait _ => Ok [DN SF n a (subst_params ie ins)]
      | XCall t a ins body, RCall _ i sti =>
        rbind (rest_block f' [] body i sti) (fun R => Ok (R ++ [DN TF t a (subst_params ie ins)]))
      | XParallel bs, RPar sts => rest_list f' (map (fun b => (ie, b)) bs) sts
      | XCond e p fl, RCond b i sti => rest_block f' ie (if b then p else fl) i sti
      | XWhile e body, RLoop k i sti =>
        rbind (rest_block f' ie body i sti) (fun R =>
        rbind (den_loop orc f' ie s (S k) 0) (fun '(D, _) => Ok (R ++ D)))
      | XCount v lim body, RLoop k i sti =>
        rbind (rest_block f' ((v, k) :: ie) body i sti) (fun R =>
        rbind (den_loop orc f' ie s (S k) 0) (fun '(D, _) => Ok (R ++ D)))
      | XParLoop v lim c, RParLoop sts => rest_list f' (insts ie v c (List.length sts)) sts
      | _, _ => Unsupported
      end
    end
  with rest_block (f : nat) (ie : ienv) (ss : list xstmt) (i : nat) (st : rst) {struct f} : res (list dev) :=
    match f with
    | O => Fuel
    | S f' =>
      match nth_error ss i with
      | None => Unsupported
      | Some s =>
        rbind (rest_stmt f' ie s st) (fun R =>
        rbind (den_block orc f' ie ss (S i) 0) (fun '(D, _) => Ok (R ++ D)))
      end
    end
  with rest_list (f : nat) (l : list (ienv * xstmt)) (sts : list rst) {struct f} : res (list dev) :=
    match f with
    | O => Fuel
    | S f' =>
      match l, sts with
      | [], [] => Ok []
      | (ie, b) :: r, st :: sr =>
        rbind (rest_stmt f' ie b st) (fun R1 =>
        rbind (rest_list f' r sr) (fun R2 => Ok (R1 ++ R2)))
      | _, _ => Unsupported
      end
    end.

  Lemma rest_sound : forall f,
      (forall ie s st R, rest_stmt f ie s st = Ok R -> RS ie s st R) /\
      (forall ie ss i st R, rest_block f ie ss i st = Ok R -> RB ie ss i st R) /\
      (forall l sts R, rest_list f l sts = Ok R -> RL l sts R).
  Proof.
    induction f as [|f IH]; [split; [|split]; intros; discriminate|].
    destruct IH as (IHs & IHb & IHl).
    split; [|split].
    - intros ie s st R H. cbn [rest_stmt] in H.
      destruct s as [n at_ ins|t at_ ins body|bs|e p fl|e b|v lim b|v lim c];
        destruct st as [|id'|cid i sti|sts|bb i sti|k i sti|sts]; try discriminate;
          try solve [inv H; constructor].
      + destruct (rest_block f [] body i sti) as [Rb| | |] eqn:E; cbn [rbind] in H; try discriminate.
        inv H. constructor. apply IHb. exact E.
      + constructor. apply IHl. exact H.
      + constructor. apply IHb. exact H.
      + destruct (rest_block f ie b i sti) as [Rb| | |] eqn:E; cbn [rbind] in H; try discriminate.
        destruct (den_loop orc f ie (XWhile e b) (S k) 0) as [[D q']| | |] eqn:E2; cbn [rbind] in H; try discriminate.
        inv H. constructor; [apply IHb; exact E|eapply DLoop_of_den; exact E2].
      + destruct (rest_block f ((v, k) :: ie) b i sti) as [Rb| | |] eqn:E; cbn [rbind] in H; try discriminate.
        destruct (den_loop orc f ie (XCount v lim b) (S k) 0) as [[D q']| | |] eqn:E2; cbn [rbind] in H; try discriminate.
        inv H. constructor; [apply IHb; exact E|eapply DLoop_of_den; exact E2].
      + constructor. apply IHl. exact H.
    - intros ie ss i st R H. cbn [rest_block] in H.
      destruct (nth_error ss i) as [s|] eqn:N; [|discriminate].
      destruct (rest_stmt f ie s st) as [R1| | |] eqn:E; cbn [rbind] in H; try discriminate.
      destruct (den_block orc f ie ss (S i) 0) as [[D q']| | |] eqn:E2; cbn [rbind] in H; try discriminate.
      inv H. econstructor; [exact N|apply IHs; exact E|eapply DB_of_den; exact E2].
    - intros l sts R H. cbn [rest_list] in H.
      destruct l as [|[ie b] r]; destruct sts as [|st sr]; try discriminate.
      + inv H. constructor.
      + destruct (rest_stmt f ie b st) as [R1| | |] eqn:E; cbn [rbind] in H; try discriminate.
        destruct (rest_list f r sr) as [R2| | |] eqn:E2; cbn [rbind] in H; try discriminate.
        inv H. constructor; [apply IHs; exact E|apply IHl; exact E2].
  Qed.

  Scheme RS_min := Minimality for RS Sort Prop
    with RB_min := Minimality for RB Sort Prop
    with RL_min := Minimality for RL Sort Prop.
  Combined Scheme RS_RB_RL_min from RS_min, RB_min, RL_min.

  (* ... and conversely: every residual is computed, by any sufficient fuel *)
  Lemma rest_complete :
      (forall ie s st R, RS ie s st R -> exists F, forall F', F <= F' -> rest_stmt F' ie s st = Ok R) /\
      (forall ie ss i st R, RB ie ss i st R -> exists F, forall F', F <= F' -> rest_block F' ie ss i st = Ok R) /\
      (forall l sts R, RL l sts R -> exists F, forall F', F <= F' -> rest_list F' l sts = Ok R).
  Proof.
    apply RS_RB_RL_min.
    - intros ie s. exists 1. intros F' H. destruct F' as [|F']; [lia|]. destruct s; reflexivity.
    - intros ie n a ins id. exists 1. intros F' H. destruct F' as [|F']; [lia|]. reflexivity.
    - intros ie t a ins body cid i st R _ (Fb & HF). exists (S Fb). intros F' H.
      destruct F' as [|F']; [lia|]. cbn [rest_stmt]. rewrite HF by lia. reflexivity.
    - intros ie bs sts R _ (Fl & HF). exists (S Fl). intros F' H.
      destruct F' as [|F']; [lia|]. cbn [rest_stmt]. apply HF. lia.
    - intros ie e p fl b i st R _ (Fb & HF). exists (S Fb). intros F' H.
      destruct F' as [|F']; [lia|]. cbn [rest_stmt]. apply HF. lia.
    - intros ie e body k i st R D _ (Fb & HF) (Fd & HD). exists (S (Nat.max Fb Fd)). intros F' H.
      destruct F' as [|F']; [lia|]. cbn [rest_stmt]. rewrite HF by lia. cbn [rbind].
      destruct (HD 0) as (q' & E). rewrite (den_loop_le orc Fd F' _ _ _ _ _ ltac:(lia) E). reflexivity.
    - intros ie v lim body k i st R D _ (Fb & HF) (Fd & HD). exists (S (Nat.max Fb Fd)). intros F' H.
      destruct F' as [|F']; [lia|]. cbn [rest_stmt]. rewrite HF by lia. cbn [rbind].
      destruct (HD 0) as (q' & E). rewrite (den_loop_le orc Fd F' _ _ _ _ _ ltac:(lia) E). reflexivity.
    - intros ie v lim c sts R _ (Fl & HF). exists (S Fl). intros F' H.
      destruct F' as [|F']; [lia|]. cbn [rest_stmt]. apply HF. lia.
    - intros ie ss i s st R D N _ (Fs & HF) (Fd & HD). exists (S (Nat.max Fs Fd)). intros F' H.
      destruct F' as [|F']; [lia|]. cbn [rest_block]. rewrite N, HF by lia. cbn [rbind].
      destruct (HD 0) as (q' & E). rewrite (den_block_le orc Fd F' _ _ _ _ _ ltac:(lia) E). reflexivity.
    - exists 1. intros F' H. destruct F' as [|F']; [lia|]. reflexivity.
    - intros ie b r st sts R1 R2 _ (F1 & HF1) _ (F2 & HF2). exists (S (Nat.max F1 F2)). intros F' H.
      destruct F' as [|F']; [lia|]. cbn [rest_list]. rewrite HF1 by lia. cbn [rbind]. rewrite HF2 by lia. reflexivity.
  Qed.

  Section Run.
  Variable imm : nat -> bool.

  Lemma service_conf : forall n at_ ins ctx ie g st g',
      (id <- fresh_s ;;
       await id ;;;
       emit (mk SS n at_ id (Some ctx) (subst_params ie ins)) ;;;
       k <- tick_ss ;;
       if imm k
       then unawait id ;;; emit (mk SF n at_ id (Some ctx) (subst_params ie ins)) ;;; ret RDone
       else ret (RAwait id)) g = Ok (st, g') ->
      (st = RDone /\ LogD [DN SS n at_ (subst_params ie ins); DN SF n at_ (subst_params ie ins)] g g')
      \/ (exists id, st = RAwait id /\ LogD [DN SS n at_ (subst_params ie ins)] g g').
  Proof.
    intros n at_ ins ctx ie g st g' H.
    mstep as id g1 E1. apply fresh_s_log in E1.
    mstep as u2 g2 E2. apply await_log in E2.
    mstep as u3 g3 E3. apply LogD_emit in E3.
    mstep as k g4 E4. apply tick_ss_log in E4.
    destruct (imm k).
    - mstep as u5 g5 E5. apply unawait_log in E5.
      mstep as u6 g6 E6. apply LogD_emit in E6. mstep.
      left. split; [reflexivity|].
      change [DN SS n at_ (subst_params ie ins); DN SF n at_ (subst_params ie ins)]
        with ([] ++ [] ++ [DN SS n at_ (subst_params ie ins)] ++ [] ++ [] ++ [DN SF n at_ (subst_params ie ins)] ++ []).
      logd.
    - mstep. right. exists id. split; [reflexivity|].
      change [DN SS n at_ (subst_params ie ins)] with ([] ++ [] ++ [DN SS n at_ (subst_params ie ins)] ++ [] ++ []).
      logd.
  Qed.

  (* ================================================================================ *)
  (* 4. the start family: emitted now + residual afterwards = denotation               *)
  (* ================================================================================ *)
  Lemma start_conf : forall f,
      (forall ctx ie s g st g',
          start_stmt orc imm f ctx ie s g = Ok (st, g') ->
          exists E, LogD E g g' /\
                    forall R, RS ie s st R -> exists D, DS ie s D /\ Permutation D (E ++ R)) /\
      (forall ctx ie ss i g r g',
          run_block orc imm f ctx ie ss i g = Ok (r, g') ->
          exists E, LogD E g g' /\
                    forall R, RO ie ss r R -> exists D, DB ie ss i D /\ Permutation D (E ++ R)) /\
      (forall ctx l g sts g',
          start_list orc imm f ctx l g = Ok (sts, g') ->
          exists E, LogD E g g' /\
                    forall R, RL l sts R -> exists D, DL l D /\ Permutation D (E ++ R)) /\
      (forall ctx ie s k g st g',
          loop_test orc imm f ctx ie s k g = Ok (st, g') ->
          exists E, LogD E g g' /\
                    forall R, RS ie s st R -> exists D, DLoop ie s k D /\ Permutation D (E ++ R)).
  Proof.
    induction f as [|f IH]; [split; [|split; [|split]]; intros; discriminate|].
    destruct IH as (IHs & IHb & IHl & IHt).
    split; [|split; [|split]].
    - (* start_stmt *)
      intros ctx ie s g st g' H. cbn [start_stmt] in H.
      destruct s as [n at_ ins|t at_ ins body|bs|e p fl|e b|v lim b|v lim c].
      + (* service *)
        apply service_conf in H. destruct H as [[-> L]|(id & -> & L)].
        * eexists. split; [exact L|]. intros R HR. inv HR.
          eexists. split; [apply DS_service|]. rewrite app_nil_r. apply Permutation_refl.
        * eexists. split; [exact L|]. intros R HR. inv HR.
          eexists. split; [apply DS_service|]. apply Permutation_refl.
      + (* task call *)
        mstep as id g1 E1. apply fresh_t_log in E1.
        mstep as u2 g2 E2. apply LogD_emit in E2.
        mstep as r g3 E3. destruct (IHb _ _ _ _ _ _ _ E3) as (Eb & Lb & Kb).
        destruct r as [[i sti]|].
        * mstep. eexists. split; [logd|]. intros R HR. inv HR.
          match goal with HB : RB _ _ _ _ _ |- _ => destruct (Kb _ HB) as (Db & HDb & HP) end.
          eexists. split; [apply DS_call; exact HDb|]. rewrite HP. pnorm. apply Permutation_refl.
        * mstep as u4 g4 E4. apply LogD_emit in E4. mstep.
          eexists. split; [logd|]. intros R HR. inv HR.
          destruct (Kb [] eq_refl) as (Db & HDb & HP).
          eexists. split; [apply DS_call; exact HDb|]. rewrite HP. pnorm. apply Permutation_refl.
      + (* parallel *)
        mstep as sts g1 E1.
        pose proof (proj1 (proj2 (proj2 (start_wf orc imm f))) _ _ _ _ _ E1) as W.
        destruct (IHl _ _ _ _ _ E1) as (El & Ll & Kl).
        destruct (all_done sts) eqn:Dn; mstep.
        * eexists. split; [exact Ll|]. intros R HR. inv HR.
          destruct (Kl [] (RL_all_done _ _ W Dn)) as (D & HD & HP).
          eexists. split; [apply DS_par; exact HD|exact HP].
        * eexists. split; [exact Ll|]. intros R HR. inv HR.
          match goal with HB : RL _ _ _ |- _ => destruct (Kl _ HB) as (D & HD & HP) end.
          eexists. split; [apply DS_par; exact HD|exact HP].
      + (* condition *)
        mstep as bb g1 E1. apply cdecide_of_run in E1. destruct E1 as (C & evs & L1 & Q1).
        apply LogD_of_LogR in L1. rewrite Q1 in L1.
        mstep as r g2 E2. destruct (IHb _ _ _ _ _ _ _ E2) as (Eb & Lb & Kb).
        destruct r as [[i sti]|]; mstep.
        * eexists. split; [logd|]. intros R HR. inv HR.
          match goal with HB : RB _ _ _ _ _ |- _ => destruct (Kb _ HB) as (Db & HDb & HP) end.
          eexists. split; [eapply DS_cond; [exact C|exact HDb]|]. rewrite HP. pnorm. apply Permutation_refl.
        * eexists. split; [logd|]. intros R HR. inv HR.
          destruct (Kb [] eq_refl) as (Db & HDb & HP).
          eexists. split; [eapply DS_cond; [exact C|exact HDb]|]. rewrite HP. pnorm. apply Permutation_refl.
      + (* while *)
        destruct (IHt _ _ _ _ _ _ _ H) as (Et & Lt & Kt).
        eexists. split; [exact Lt|]. intros R HR. destruct (Kt _ HR) as (D & HD & HP).
        eexists. split; [apply DS_while; exact HD|exact HP].
      + (* counting loop *)
        destruct (IHt _ _ _ _ _ _ _ H) as (Et & Lt & Kt).
        eexists. split; [exact Lt|]. intros R HR. destruct (Kt _ HR) as (D & HD & HP).
        eexists. split; [apply DS_count; exact HD|exact HP].
      + (* parallel loop *)
        mstep as n g1 E1. apply climit_of_run in E1. destruct E1 as (evs & L1 & C).
        apply LogD_of_LogR in L1.
        mstep as sts g2 E2.
        pose proof (proj1 (proj2 (proj2 (start_wf orc imm f))) _ _ _ _ _ E2) as W.
        assert (Hlen : List.length sts = Z.to_nat n).
        { apply Forall2_len in W. unfold insts in W. rewrite map_length, seq_length in W. congruence. }
        destruct (IHl _ _ _ _ _ E2) as (El & Ll & Kl).
        destruct (all_done sts) eqn:Dn; mstep.
        * eexists. split; [logd|]. intros R HR. inv HR.
          destruct (Kl [] (RL_all_done _ _ W Dn)) as (D & HD & HP).
          eexists. split; [eapply DS_parloop; [exact C|exact HD]|]. rewrite HP. pnorm. apply Permutation_refl.
        * eexists. split; [logd|]. intros R HR. inv HR.
          match goal with HB : RL _ _ _ |- _ => rewrite Hlen in HB; destruct (Kl _ HB) as (D & HD & HP) end.
          eexists. split; [eapply DS_parloop; [exact C|exact HD]|]. rewrite HP. pnorm. apply Permutation_refl.
    - (* run_block *)
      intros ctx ie ss i g r g' H. cbn [run_block] in H.
      destruct (nth_error ss i) as [s1|] eqn:N.
      + mstep as st g1 E1. destruct (IHs _ _ _ _ _ _ E1) as (E1' & L1 & K1).
        destruct (is_done st) eqn:Dn.
        * apply is_done_RDone in Dn. subst st.
          destruct (IHb _ _ _ _ _ _ _ H) as (E2' & L2 & K2).
          eexists. split; [logd|]. intros R HR.
          destruct (K1 [] (RS_done _ _)) as (D1 & HD1 & HP1).
          destruct (K2 _ HR) as (D2 & HD2 & HP2).
          eexists. split; [eapply DB_cons; eassumption|]. rewrite HP1, HP2. pnorm. apply Permutation_refl.
        * mstep. eexists. split; [exact L1|]. intros R HR. cbn [RO] in HR. inv HR.
          match goal with HN : nth_error _ _ = Some _ |- _ => rewrite N in HN; inv HN end.
          match goal with HB : RS _ _ _ _ |- _ => destruct (K1 _ HB) as (D1 & HD1 & HP1) end.
          eexists. split; [eapply DB_cons; eassumption|]. rewrite HP1. pnorm. apply Permutation_refl.
      + mstep. exists []. split; [apply LogD_refl|]. intros R HR. cbn [RO] in HR. subst R.
        exists []. split; [apply DB_nil; exact N|apply Permutation_refl].
    - (* start_list *)
      intros ctx l g sts g' H. cbn [start_list] in H.
      destruct l as [|[ie b] r].
      + mstep. exists []. split; [apply LogD_refl|]. intros R HR. inv HR.
        exists []. split; [apply DL_nil|apply Permutation_refl].
      + mstep as st g1 E1. destruct (IHs _ _ _ _ _ _ E1) as (E1' & L1 & K1).
        mstep as sts1 g2 E2. destruct (IHl _ _ _ _ _ E2) as (E2' & L2 & K2).
        mstep. eexists. split; [logd|]. intros R HR. inv HR.
        match goal with HB : RS _ _ _ _ |- _ => destruct (K1 _ HB) as (D1 & HD1 & HP1) end.
        match goal with HB : RL _ _ _ |- _ => destruct (K2 _ HB) as (D2 & HD2 & HP2) end.
        eexists. split; [apply DL_cons; eassumption|]. rewrite HP1, HP2. pnorm.
        apply Permutation_app_head. apply Permutation_app_swap_app.
    - (* loop_test *)
      intros ctx ie s k g st g' H. cbn [loop_test] in H.
      destruct s as [n at_ ins|t at_ ins body|bs|e p fl|e b|v lim b|v lim c]; try discriminate.
      + (* while *)
        mstep as bb g1 E1. apply cdecide_of_run in E1. destruct E1 as (C & evs & L1 & Q1).
        apply LogD_of_LogR in L1. rewrite Q1 in L1.
        destruct bb.
        * mstep as r g2 E2. destruct (IHb _ _ _ _ _ _ _ E2) as (Eb & Lb & Kb).
          destruct r as [[i sti]|].
          -- mstep. eexists. split; [logd|]. intros R HR. inv HR.
             match goal with HB : RB _ _ _ _ _ |- _ => destruct (Kb _ HB) as (Db & HDb & HP) end.
             eexists. split; [eapply DLoop_while_true; eassumption|]. rewrite HP. pnorm. apply Permutation_refl.
          -- destruct (IHt _ _ _ _ _ _ _ H) as (Et & Lt & Kt).
             eexists. split; [logd|]. intros R HR.
             destruct (Kb [] eq_refl) as (Db & HDb & HP).
             destruct (Kt _ HR) as (Dt & HDt & HPt).
             eexists. split; [eapply DLoop_while_true; eassumption|]. rewrite HP, HPt. pnorm. apply Permutation_refl.
        * mstep. eexists. split; [logd|]. intros R HR. inv HR.
          eexists. split; [apply DLoop_while_false; exact C|]. pnorm. apply Permutation_refl.
      + (* counting loop *)
        mstep as n g1 E1. apply climit_of_run in E1. destruct E1 as (evs & L1 & C).
        apply LogD_of_LogR in L1.
        destruct (Z.of_nat k <? n)%Z eqn:Hk.
        * mstep as r g2 E2. destruct (IHb _ _ _ _ _ _ _ E2) as (Eb & Lb & Kb).
          destruct r as [[i sti]|].
          -- mstep. eexists. split; [logd|]. intros R HR. inv HR.
             match goal with HB : RB _ _ _ _ _ |- _ => destruct (Kb _ HB) as (Db & HDb & HP) end.
             eexists. split; [eapply DLoop_count_go; eassumption|]. rewrite HP. pnorm. apply Permutation_refl.
          -- destruct (IHt _ _ _ _ _ _ _ H) as (Et & Lt & Kt).
             eexists. split; [logd|]. intros R HR.
             destruct (Kb [] eq_refl) as (Db & HDb & HP).
             destruct (Kt _ HR) as (Dt & HDt & HPt).
             eexists. split; [eapply DLoop_count_go; eassumption|]. rewrite HP, HPt. pnorm. apply Permutation_refl.
        * mstep. eexists. split; [logd|]. intros R HR. inv HR.
          eexists. split; [eapply DLoop_count_stop; eassumption|]. pnorm. apply Permutation_refl.
  Qed.

  (* ================================================================================ *)
  (* 5. the deliver family: emitted now + residual afterwards = residual before        *)
  (* ================================================================================ *)
  Lemma deliver_none_same : forall f ctx ie s st id g g',
      deliver orc imm f ctx ie s st id g = Ok (None, g') -> g' = g.
  Proof. intros f ctx ie s st id g g' H. exact (proj1 (deliver_eff orc imm f) _ _ _ _ _ _ _ _ H). Qed.

  Lemma deliver_conf : forall f,
      (forall ctx ie s st id g st' g',
          deliver orc imm f ctx ie s st id g = Ok (Some st', g') -> wf s st ->
          exists E, LogD E g g' /\
                    forall R', RS ie s st' R' -> exists R, RS ie s st R /\ Permutation R (E ++ R')) /\
      (forall ctx ie ss i sti id g r g',
          deliver_block orc imm f ctx ie ss i sti id g = Ok (Some r, g') -> wf_block ss i sti ->
          exists E, LogD E g g' /\
                    forall R', RO ie ss r R' -> exists R, RB ie ss i sti R /\ Permutation R (E ++ R')) /\
      (forall ctx l sts id g sts' g',
          deliver_list orc imm f ctx l sts id g = Ok (Some sts', g') -> wf_list l sts ->
          exists E, LogD E g g' /\
                    forall R', RL l sts' R' -> exists R, RL l sts R /\ Permutation R (E ++ R')).
  Proof.
    induction f as [|f IH]; [split; [|split]; intros; discriminate|].
    destruct IH as (IHd & IHb & IHl).
    split; [|split].
    - (* deliver *)
      intros ctx ie s st id g st' g' H Hw. cbn [deliver] in H.
      destruct s as [n at_ ins|t at_ ins body|bs|e p fl|e b|v lim b|v lim c];
        destruct st as [|id'|cid i sti|sts|bb i sti|k i sti|sts];
        try (mstep; discriminate).
      + (* service *)
        destruct (Nat.eqb id id'); [|mstep; discriminate].
        mstep as u g1 E1. apply LogD_emit in E1. mstep. subst.
        eexists. split; [exact E1|]. intros R' HR. inv HR.
        eexists. split; [constructor|]. pnorm. apply Permutation_refl.
      + (* call *)
        inv Hw.
        mstep as r1 g1 E1. destruct r1 as [r1|]; [|mstep; discriminate].
        assert (Wb : wf_block body i sti) by (eexists; split; eassumption).
        destruct (IHb _ _ _ _ _ _ _ _ _ E1 Wb) as (Eb & Lb & Kb).
        destruct r1 as [[j stj]|].
        * mstep. subst.
          eexists. split; [exact Lb|]. intros R' HR. inv HR.
          match goal with HB : RB _ _ _ _ _ |- _ => destruct (Kb _ HB) as (Rb & HRb & HP) end.
          eexists. split; [constructor; exact HRb|]. rewrite HP. pnorm. apply Permutation_refl.
        * mstep as u g2 E2. apply LogD_emit in E2. mstep. subst.
          eexists. split; [logd|]. intros R' HR. inv HR.
          destruct (Kb [] eq_refl) as (Rb & HRb & HP).
          eexists. split; [constructor; exact HRb|]. rewrite HP. pnorm. apply Permutation_refl.
      + (* parallel *)
        inv Hw.
        match goal with HF : Forall2 wf _ _ |- _ => pose proof (wf_list_map_intro ie _ _ HF) as Wl end.
        mstep as r1 g1 E1. destruct r1 as [sts'|]; [|mstep; discriminate].
        pose proof (proj2 (proj2 (deliver_wf orc imm f)) _ _ _ _ _ _ _ E1 Wl) as Wl'. cbn [wf_lo] in Wl'.
        destruct (IHl _ _ _ _ _ _ _ E1 Wl) as (El & Ll & Kl).
        destruct (all_done sts') eqn:Dn; mstep; subst.
        * eexists. split; [exact Ll|]. intros R' HR. inv HR.
          destruct (Kl [] (RL_all_done _ _ Wl' Dn)) as (R & HR & HP).
          eexists. split; [constructor; exact HR|exact HP].
        * eexists. split; [exact Ll|]. intros R' HR. inv HR.
          match goal with HB : RL _ _ _ |- _ => destruct (Kl _ HB) as (R & HR & HP) end.
          eexists. split; [constructor; exact HR|exact HP].
      + (* condition *)
        inv Hw.
        mstep as r1 g1 E1. destruct r1 as [r1|]; [|mstep; discriminate].
        assert (Wb : wf_block (if bb then p else fl) i sti) by (eexists; split; eassumption).
        destruct (IHb _ _ _ _ _ _ _ _ _ E1 Wb) as (Eb & Lb & Kb).
        destruct r1 as [[j stj]|]; mstep; subst.
        * eexists. split; [exact Lb|]. intros R' HR. inv HR.
          match goal with HB : RB _ _ _ _ _ |- _ => destruct (Kb _ HB) as (Rb & HRb & HP) end.
          eexists. split; [constructor; exact HRb|exact HP].
        * eexists. split; [exact Lb|]. intros R' HR. inv HR.
          destruct (Kb [] eq_refl) as (Rb & HRb & HP).
          eexists. split; [constructor; exact HRb|exact HP].
      + (* while *)
        inv Hw.
        mstep as r1 g1 E1. destruct r1 as [r1|]; [|mstep; discriminate].
        assert (Wb : wf_block b i sti) by (eexists; split; eassumption).
        destruct (IHb _ _ _ _ _ _ _ _ _ E1 Wb) as (Eb & Lb & Kb).
        destruct r1 as [[j stj]|].
        * mstep. subst.
          eexists. split; [exact Lb|]. intros R' HR. inv HR.
          match goal with HB : RB _ _ _ _ _ |- _ => destruct (Kb _ HB) as (Rb & HRb & HP) end.
          eexists. split; [constructor; eassumption|]. rewrite HP. pnorm. apply Permutation_refl.
        * mstep as st2 g2 E2. destruct (proj2 (proj2 (proj2 (start_conf f))) _ _ _ _ _ _ _ E2) as (Et & Lt & Kt).
          mstep. subst.
          eexists. split; [logd|]. intros R' HR.
          destruct (Kb [] eq_refl) as (Rb & HRb & HP).
          destruct (Kt _ HR) as (Dt & HDt & HPt).
          eexists. split; [constructor; eassumption|]. rewrite HP, HPt. pnorm. apply Permutation_refl.
      + (* counting loop *)
        inv Hw.
        mstep as r1 g1 E1. destruct r1 as [r1|]; [|mstep; discriminate].
        assert (Wb : wf_block b i sti) by (eexists; split; eassumption).
        destruct (IHb _ _ _ _ _ _ _ _ _ E1 Wb) as (Eb & Lb & Kb).
        destruct r1 as [[j stj]|].
        * mstep. subst.
          eexists. split; [exact Lb|]. intros R' HR. inv HR.
          match goal with HB : RB _ _ _ _ _ |- _ => destruct (Kb _ HB) as (Rb & HRb & HP) end.
          eexists. split; [constructor; eassumption|]. rewrite HP. pnorm. apply Permutation_refl.
        * mstep as st2 g2 E2. destruct (proj2 (proj2 (proj2 (start_conf f))) _ _ _ _ _ _ _ E2) as (Et & Lt & Kt).
          mstep. subst.
          eexists. split; [logd|]. intros R' HR.
          destruct (Kb [] eq_refl) as (Rb & HRb & HP).
          destruct (Kt _ HR) as (Dt & HDt & HPt).
          eexists. split; [constructor; eassumption|]. rewrite HP, HPt. pnorm. apply Permutation_refl.
      + (* parallel loop *)
        inv Hw.
        match goal with HF : Forall (wf c) _ |- _ => pose proof (wf_list_insts ie v c _ HF) as Wl end.
        mstep as r1 g1 E1. destruct r1 as [sts'|]; [|mstep; discriminate].
        pose proof (proj2 (proj2 (deliver_wf orc imm f)) _ _ _ _ _ _ _ E1 Wl) as Wl'. cbn [wf_lo] in Wl'.
        assert (Hlen : List.length sts' = List.length sts).
        { apply Forall2_len in Wl. apply Forall2_len in Wl'. congruence. }
        destruct (IHl _ _ _ _ _ _ _ E1 Wl) as (El & Ll & Kl).
        destruct (all_done sts') eqn:Dn; mstep; subst.
        * eexists. split; [exact Ll|]. intros R' HR. inv HR.
          destruct (Kl [] (RL_all_done _ _ Wl' Dn)) as (R & HR & HP).
          eexists. split; [constructor; exact HR|exact HP].
        * eexists. split; [exact Ll|]. intros R' HR. inv HR.
          match goal with HB : RL _ _ _ |- _ => rewrite Hlen in HB; destruct (Kl _ HB) as (R & HR & HP) end.
          eexists. split; [constructor; exact HR|exact HP].
    - (* deliver_block *)
      intros ctx ie ss i sti id g r g' H (s1 & N & W). cbn [deliver_block] in H. rewrite N in H.
      mstep as r1 g1 E1. destruct r1 as [st'|]; [|mstep; discriminate].
      destruct (IHd _ _ _ _ _ _ _ _ E1 W) as (E1' & L1 & K1).
      destruct (is_done st') eqn:Dn.
      + apply is_done_RDone in Dn. subst st'.
        mstep as r' g2 E2. destruct (proj1 (proj2 (start_conf f)) _ _ _ _ _ _ _ E2) as (E2' & L2 & K2).
        mstep. subst.
        eexists. split; [logd|]. intros R' HR.
        destruct (K1 [] (RS_done _ _)) as (R1 & HR1 & HP1).
        destruct (K2 _ HR) as (D2 & HD2 & HP2).
        eexists. split; [econstructor; eassumption|]. rewrite HP1, HP2. pnorm. apply Permutation_refl.
      + mstep. subst.
        eexists. split; [exact L1|]. intros R' HR. cbn [RO] in HR. inv HR.
        match goal with HN : nth_error _ _ = Some _ |- _ => rewrite N in HN; inv HN end.
        match goal with HB : RS _ _ _ _ |- _ => destruct (K1 _ HB) as (R1 & HR1 & HP1) end.
        eexists. split; [econstructor; eassumption|]. rewrite HP1. pnorm. apply Permutation_refl.
    - (* deliver_list *)
      intros ctx l sts id g sts' g' H Hw. cbn [deliver_list] in H.
      destruct l as [|[ie b] br]; [mstep; discriminate|].
      destruct sts as [|st sr]; [mstep; discriminate|]. inv Hw.
      match goal with HW : wf (snd _) _ |- _ => cbn [snd] in HW end.
      mstep as r1 g1 E1. destruct r1 as [st'|].
      + mstep. subst.
        match goal with HW : wf b st |- _ => destruct (IHd _ _ _ _ _ _ _ _ E1 HW) as (E1' & L1 & K1) end.
        eexists. split; [exact L1|]. intros R' HR. inv HR.
        match goal with HB : RS _ _ _ _ |- _ => destruct (K1 _ HB) as (Q1 & HQ1 & HP1) end.
        eexists. split; [constructor; eassumption|]. rewrite HP1. pnorm. apply Permutation_refl.
      + apply deliver_none_same in E1. subst g1.
        mstep as r2 g2 E2. destruct r2 as [sr'|]; [|mstep; discriminate].
        mstep. subst.
        match goal with HW : Forall2 _ br sr |- _ => destruct (IHl _ _ _ _ _ _ _ E2 HW) as (E2' & L2 & K2) end.
        eexists. split; [exact L2|]. intros R' HR. inv HR.
        match goal with HB : RL _ _ _ |- _ => destruct (K2 _ HB) as (Q2 & HQ2 & HP2) end.
        eexists. split; [constructor; eassumption|]. rewrite HP2. pnorm. apply Permutation_app_swap_app.
  Qed.

  (* ================================================================================ *)
  (* 5b. the residual exists whenever the denotation does (so the invariants above     *)
  (*     also speak about histories that are not complete yet)                         *)
  (* ================================================================================ *)
  Lemma RL_len : forall l sts R, RL l sts R -> List.length l = List.length sts.
  Proof. intros l sts R H. induction H; cbn [List.length]; congruence. Qed.

  Lemma start_fwd : forall f,
      (forall ctx ie s g st g',
          start_stmt orc imm f ctx ie s g = Ok (st, g') ->
          forall D, DS ie s D -> exists R, RS ie s st R) /\
      (forall ctx ie ss i g r g',
          run_block orc imm f ctx ie ss i g = Ok (r, g') ->
          forall D, DB ie ss i D -> exists R, RO ie ss r R) /\
      (forall ctx l g sts g',
          start_list orc imm f ctx l g = Ok (sts, g') ->
          forall D, DL l D -> exists R, RL l sts R) /\
      (forall ctx ie s k g st g',
          loop_test orc imm f ctx ie s k g = Ok (st, g') ->
          forall D, DLoop ie s k D -> exists R, RS ie s st R).
  Proof.
    induction f as [|f IH]; [split; [|split; [|split]]; intros; discriminate|].
    destruct IH as (IHs & IHb & IHl & IHt).
    split; [|split; [|split]].
    - intros ctx ie s g st g' H D HD. cbn [start_stmt] in H.
      destruct s as [n at_ ins|t at_ ins body|bs|e p fl|e b|v lim b|v lim c].
      + apply service_conf in H. destruct H as [[-> _]|(id & -> & _)]; eexists; constructor.
      + mstep as id g1 E1. mstep as u2 g2 E2. mstep as r g3 E3.
        destruct (DS_call_inv _ _ _ _ _ _ HD) as (Db & HDb & _).
        destruct (IHb _ _ _ _ _ _ _ E3 _ HDb) as (Rb & HRb).
        destruct r as [[i sti]|].
        * mstep. eexists. constructor. exact HRb.
        * mstep as u4 g4 E4. mstep. eexists. constructor.
      + mstep as sts g1 E1. apply DS_par_inv in HD.
        destruct (IHl _ _ _ _ _ E1 _ HD) as (Rl & HRl).
        destruct (all_done sts); mstep; eexists; constructor. exact HRl.
      + mstep as bb g1 E1. apply cdecide_of_run in E1. destruct E1 as (C & _).
        mstep as r g2 E2. destruct (DS_cond_inv _ _ _ _ _ _ HD C) as (Db & HDb & _).
        destruct (IHb _ _ _ _ _ _ _ E2 _ HDb) as (Rb & HRb).
        destruct r as [[i sti]|]; mstep; eexists; constructor. exact HRb.
      + apply DS_while_inv in HD. eapply IHt; eassumption.
      + apply DS_count_inv in HD. eapply IHt; eassumption.
      + mstep as n g1 E1. apply climit_of_run in E1. destruct E1 as (evs & _ & C).
        mstep as sts g2 E2.
        pose proof (proj1 (proj2 (proj2 (start_wf orc imm f))) _ _ _ _ _ E2) as W.
        assert (Hlen : List.length sts = Z.to_nat n).
        { apply Forall2_len in W. unfold insts in W. rewrite map_length, seq_length in W. congruence. }
        destruct (DS_parloop_inv _ _ _ _ _ _ _ HD C) as (Dl & HDl & _).
        destruct (IHl _ _ _ _ _ E2 _ HDl) as (Rl & HRl).
        destruct (all_done sts); mstep; eexists; constructor. rewrite Hlen. exact HRl.
    - intros ctx ie ss i g r g' H D HD. cbn [run_block] in H.
      destruct (nth_error ss i) as [s1|] eqn:N.
      + destruct (DB_inv _ _ _ _ _ N HD) as (D1 & D2 & HD1 & HD2 & _).
        mstep as st g1 E1. destruct (IHs _ _ _ _ _ _ E1 _ HD1) as (R1 & HR1).
        destruct (is_done st) eqn:Dn.
        * eapply IHb; eassumption.
        * mstep. eexists. cbn [RO]. econstructor; eassumption.
      + mstep. exists []. reflexivity.
    - intros ctx l g sts g' H D HD. cbn [start_list] in H.
      destruct l as [|[ie b] r].
      + mstep. eexists. constructor.
      + destruct (DL_inv _ _ _ _ HD) as (D1 & D2 & HD1 & HD2 & _).
        mstep as st g1 E1. destruct (IHs _ _ _ _ _ _ E1 _ HD1) as (R1 & HR1).
        mstep as sts1 g2 E2. destruct (IHl _ _ _ _ _ E2 _ HD2) as (R2 & HR2).
        mstep. eexists. constructor; eassumption.
    - intros ctx ie s k g st g' H D HD. cbn [loop_test] in H.
      destruct s as [n at_ ins|t at_ ins body|bs|e p fl|e b|v lim b|v lim c]; try discriminate.
      + mstep as bb g1 E1. apply cdecide_of_run in E1. destruct E1 as (C & _).
        destruct bb; [|mstep; eexists; constructor].
        destruct (DLoop_while_inv _ _ _ _ _ HD C) as (D1 & D2 & HD1 & HD2 & _).
        mstep as r g2 E2. destruct (IHb _ _ _ _ _ _ _ E2 _ HD1) as (Rb & HRb).
        destruct r as [[i sti]|].
        * mstep. eexists. constructor; eassumption.
        * eapply IHt; eassumption.
      + mstep as n g1 E1. apply climit_of_run in E1. destruct E1 as (evs & _ & C).
        destruct (Z.of_nat k <? n)%Z eqn:Hk; [|mstep; eexists; constructor].
        destruct (DLoop_count_inv _ _ _ _ _ _ _ _ HD C Hk) as (D1 & D2 & HD1 & HD2 & _).
        mstep as r g2 E2. destruct (IHb _ _ _ _ _ _ _ E2 _ HD1) as (Rb & HRb).
        destruct r as [[i sti]|].
        * mstep. eexists. constructor; eassumption.
        * eapply IHt; eassumption.
  Qed.

  Lemma deliver_fwd : forall f,
      (forall ctx ie s st id g st' g',
          deliver orc imm f ctx ie s st id g = Ok (Some st', g') ->
          forall R, RS ie s st R -> exists R', RS ie s st' R') /\
      (forall ctx ie ss i sti id g r g',
          deliver_block orc imm f ctx ie ss i sti id g = Ok (Some r, g') ->
          forall R, RB ie ss i sti R -> exists R', RO ie ss r R') /\
      (forall ctx l sts id g sts' g',
          deliver_list orc imm f ctx l sts id g = Ok (Some sts', g') ->
          forall R, RL l sts R -> exists R', RL l sts' R').
  Proof.
    induction f as [|f IH]; [split; [|split]; intros; discriminate|].
    destruct IH as (IHd & IHb & IHl).
    split; [|split].
    - intros ctx ie s st id g st' g' H R HR. cbn [deliver] in H.
      destruct s as [n at_ ins|t at_ ins body|bs|e p fl|e b|v lim b|v lim c];
        destruct st as [|id'|cid i sti|sts|bb i sti|k i sti|sts];
        try (mstep; discriminate).
      + destruct (Nat.eqb id id'); [|mstep; discriminate].
        mstep as u g1 E1. mstep. subst. eexists. constructor.
      + inv HR. mstep as r1 g1 E1. destruct r1 as [r1|]; [|mstep; discriminate].
        match goal with HB : RB _ _ _ _ _ |- _ => destruct (IHb _ _ _ _ _ _ _ _ _ E1 _ HB) as (Rb & HRb) end.
        destruct r1 as [[j stj]|].
        * mstep. subst. eexists. constructor. exact HRb.
        * mstep as u g2 E2. mstep. subst. eexists. constructor.
      + inv HR. mstep as r1 g1 E1. destruct r1 as [sts'|]; [|mstep; discriminate].
        match goal with HB : RL _ _ _ |- _ => destruct (IHl _ _ _ _ _ _ _ E1 _ HB) as (Rl & HRl) end.
        destruct (all_done sts'); mstep; subst; eexists; constructor. exact HRl.
      + inv HR. mstep as r1 g1 E1. destruct r1 as [r1|]; [|mstep; discriminate].
        match goal with HB : RB _ _ _ _ _ |- _ => destruct (IHb _ _ _ _ _ _ _ _ _ E1 _ HB) as (Rb & HRb) end.
        destruct r1 as [[j stj]|]; mstep; subst; eexists; constructor. exact HRb.
      + inv HR. mstep as r1 g1 E1. destruct r1 as [r1|]; [|mstep; discriminate].
        match goal with HB : RB _ _ _ _ _ |- _ => destruct (IHb _ _ _ _ _ _ _ _ _ E1 _ HB) as (Rb & HRb) end.
        destruct r1 as [[j stj]|].
        * mstep. subst. eexists. constructor; eassumption.
        * mstep as st2 g2 E2. mstep. subst.
          match goal with HL : DLoop _ _ _ _ |- _ =>
            exact (proj2 (proj2 (proj2 (start_fwd f))) _ _ _ _ _ _ _ E2 _ HL) end.
      + inv HR. mstep as r1 g1 E1. destruct r1 as [r1|]; [|mstep; discriminate].
        match goal with HB : RB _ _ _ _ _ |- _ => destruct (IHb _ _ _ _ _ _ _ _ _ E1 _ HB) as (Rb & HRb) end.
        destruct r1 as [[j stj]|].
        * mstep. subst. eexists. constructor; eassumption.
        * mstep as st2 g2 E2. mstep. subst.
          match goal with HL : DLoop _ _ _ _ |- _ =>
            exact (proj2 (proj2 (proj2 (start_fwd f))) _ _ _ _ _ _ _ E2 _ HL) end.
      + inv HR. mstep as r1 g1 E1. destruct r1 as [sts'|]; [|mstep; discriminate].
        match goal with HB : RL _ _ _ |- _ =>
          pose proof (RL_len _ _ _ HB) as L1; destruct (IHl _ _ _ _ _ _ _ E1 _ HB) as (Rl & HRl) end.
        pose proof (RL_len _ _ _ HRl) as L2.
        destruct (all_done sts'); mstep; subst; eexists; constructor.
        replace (List.length sts') with (List.length sts) by congruence. exact HRl.
    - intros ctx ie ss i sti id g r g' H R HR. cbn [deliver_block] in H. inv HR.
      match goal with HN : nth_error _ _ = Some _ |- _ => rewrite HN in H end.
      mstep as r1 g1 E1. destruct r1 as [st'|]; [|mstep; discriminate].
      match goal with HB : RS _ _ _ _ |- _ => destruct (IHd _ _ _ _ _ _ _ _ E1 _ HB) as (R1 & HR1) end.
      destruct (is_done st') eqn:Dn.
      + mstep as r' g2 E2. mstep. subst.
        match goal with HB : DB _ _ _ _ |- _ =>
          exact (proj1 (proj2 (start_fwd f)) _ _ _ _ _ _ _ E2 _ HB) end.
      + mstep. subst. eexists. cbn [RO]. econstructor; eassumption.
    - intros ctx l sts id g sts' g' H R HR. cbn [deliver_list] in H.
      destruct l as [|[ie b] br]; [mstep; discriminate|].
      destruct sts as [|st sr]; [mstep; discriminate|]. inv HR.
      mstep as r1 g1 E1. destruct r1 as [st'|].
      + mstep. subst.
        match goal with HB : RS _ _ _ _ |- _ => destruct (IHd _ _ _ _ _ _ _ _ E1 _ HB) as (Q1 & HQ1) end.
        eexists. constructor; eassumption.
      + mstep as r2 g2 E2. destruct r2 as [sr'|]; [|mstep; discriminate].
        mstep. subst.
        match goal with HB : RL _ _ _ |- _ => destruct (IHl _ _ _ _ _ _ _ E2 _ HB) as (Q2 & HQ2) end.
        eexists. constructor; eassumption.
  Qed.

  (* ================================================================================ *)
  (* 6. the API: every call emits what leaves the residual of the whole order          *)
  (* ================================================================================ *)
  Variable body : list xstmt.

  Definition prodTS : dev := DN TS production_task root_site [].
  Definition prodTF : dev := DN TF production_task root_site [].

  (* what is still to come from a scheduler state *)
  Definition RRoot (r : option rst) (R : list dev) : Prop :=
    match r with
    | None => exists mid, DB [] body 0 mid /\ R = prodTS :: mid ++ [prodTF]
    | Some RDone => R = []
    | Some (RCall cid i st) => exists Rb, RB [] body i st Rb /\ R = Rb ++ [prodTF]
    | Some _ => False
    end.

  Lemma finish_root_log : forall g u g', finish_root g = Ok (u, g') -> LogD [prodTF] g g'.
  Proof.
    intros g u g' H. unfold finish_root in H. mstep as u1 g1 E1. apply LogD_emit_gen in E1.
    apply set_running_log in H. change [prodTF] with ([prodTF] ++ []). eapply LogD_app; eassumption.
  Qed.

  Lemma api_conf : forall f s c b s',
      PInv body s -> lst_all (g_ls (sc_g s)) ->
      api_call orc imm f body s c = Ok (b, s') ->
      forall R', RRoot (sc_root s') R' ->
                 exists R, RRoot (sc_root s) R /\ Permutation R (dev_of_log (cr_log (observe b s')) ++ R').
  Proof.
    intros f s c b s' HI Hl H.
    assert (Q : forall b0 g r R',
               g_log g = [] -> RRoot r R' ->
               exists R, RRoot r R /\
                         Permutation R (dev_of_log (cr_log (observe b0 {| sc_g := g; sc_root := r |})) ++ R')).
    { intros b0 g r R' Hn HR. exists R'. split; [exact HR|].
      unfold observe. cbn [cr_log sc_g]. rewrite Hn. apply Permutation_refl. }
    destruct c as [|id| |k l|o|o]; cbn [api_call] in H.
    - (* start *)
      destruct (sc_root s) as [r0|] eqn:Hroot.
      + inv H. intros R' HR. eapply Q; [reflexivity|exact HR].
      + match type of H with match ?X with _ => _ end = _ => destruct X as [[st g']| | |] eqn:E end;
          try discriminate. inv H.
        set (g0 := clear_log (sc_g s)) in *.
        mstep as u1 g1 E1. apply set_running_log in E1.
        mstep as id g2 E2. apply fresh_t_log in E2.
        mstep as u3 g3 E3. apply LogD_emit in E3. fold prodTS in E3.
        mstep as r g4 E4. destruct (proj1 (proj2 (start_conf f)) _ _ _ _ _ _ _ E4) as (Eb & Lb & Kb).
        destruct r as [[i sti]|].
        * mstep.
          assert (L : LogD ([] ++ [] ++ [prodTS] ++ Eb ++ []) g0 g4) by logd.
          apply LogD_observe in L; [|reflexivity|exact Hl].
          intros R' HR. cbn [sc_root RRoot] in HR. destruct HR as (Rb & HRb & ->).
          destruct (Kb _ HRb) as (Db & HDb & HP).
          eexists. split; [exists Db; split; [exact HDb|reflexivity]|].
          unfold observe. cbn [cr_log sc_g]. rewrite L, HP. pnorm. apply Permutation_refl.
        * mstep as u5 g5 E5. apply finish_root_log in E5. mstep.
          assert (L : LogD ([] ++ [] ++ [prodTS] ++ Eb ++ [prodTF] ++ []) g0 g5) by logd.
          apply LogD_observe in L; [|reflexivity|exact Hl].
          intros R' HR. cbn [sc_root RRoot] in HR. subst R'.
          destruct (Kb [] eq_refl) as (Db & HDb & HP).
          eexists. split; [exists Db; split; [exact HDb|reflexivity]|].
          unfold observe. cbn [cr_log sc_g]. rewrite L, HP. pnorm. apply Permutation_refl.
    - (* completion *)
      change (g_awaited (clear_log (sc_g s))) with (g_awaited (sc_g s)) in H.
      destruct (mem id (g_awaited (sc_g s))).
      + destruct (sc_root s) as [[|id'|cid i sti|sts|bb i sti|k i sti|sts]|] eqn:Hroot; try discriminate.
        match type of H with match ?X with _ => _ end = _ => destruct X as [[st g']| | |] eqn:E end;
          try discriminate. inv H.
        destruct HI as [_ HR0]. rewrite Hroot in HR0. destruct HR0 as [_ HW].
        set (g0 := clear_log (sc_g s)) in *.
        mstep as u1 g1 E1. apply unawait_log in E1.
        mstep as r g2 E2. destruct r as [r|]; [|discriminate].
        destruct (proj1 (proj2 (deliver_conf f)) _ _ _ _ _ _ _ _ _ E2 HW) as (Eb & Lb & Kb).
        destruct r as [[j st']|].
        * mstep.
          assert (L : LogD ([] ++ Eb ++ []) g0 g2) by logd.
          apply LogD_observe in L; [|reflexivity|exact Hl].
          intros R' HR. cbn [sc_root RRoot] in HR. destruct HR as (Rb' & HRb' & ->).
          destruct (Kb _ HRb') as (Rb & HRb & HP).
          eexists. split; [exists Rb; split; [exact HRb|reflexivity]|].
          unfold observe. cbn [cr_log sc_g]. rewrite L, HP. pnorm. apply Permutation_refl.
        * mstep as u5 g5 E5. apply finish_root_log in E5. mstep.
          assert (L : LogD ([] ++ Eb ++ [prodTF] ++ []) g0 g5) by logd.
          apply LogD_observe in L; [|reflexivity|exact Hl].
          intros R' HR. cbn [sc_root RRoot] in HR. subst R'.
          destruct (Kb [] eq_refl) as (Rb & HRb & HP).
          eexists. split; [exists Rb; split; [exact HRb|reflexivity]|].
          unfold observe. cbn [cr_log sc_g]. rewrite L, HP. pnorm. apply Permutation_refl.
      + inv H. intros R' HR. eapply Q; [reflexivity|exact HR].
    - inv H. intros R' HR. eapply Q; [reflexivity|exact HR].
    - destruct (existsb _ (g_ls (clear_log (sc_g s)))); inv H.
      + intros R' HR. eapply Q; [reflexivity|exact HR].
      + intros R' HR. eapply Q; [reflexivity|exact HR].
    - inv H. intros R' HR. eapply Q; [reflexivity|exact HR].
    - destruct (remove_first (Nat.eqb o) (g_obs (clear_log (sc_g s)))) as [l|]; [|discriminate]. inv H.
      intros R' HR. eapply Q; [reflexivity|exact HR].
  Qed.

  (* once the order is complete nothing changes any more *)
  Lemma done_stays : forall f s c b s',
      PInv body s -> root_done (sc_root s) = true ->
      api_call orc imm f body s c = Ok (b, s') -> root_done (sc_root s') = true.
  Proof.
    intros f s c b s' [_ HR] Hd H.
    destruct (sc_root s) as [[|id'|cid i sti|sts|bb i sti|k i sti|sts]|] eqn:Hroot; try discriminate.
    destruct c as [|id| |k l|o|o]; cbn [api_call] in H; rewrite ?Hroot in H.
    - inv H. reflexivity.
    - change (g_awaited (clear_log (sc_g s))) with (g_awaited (sc_g s)) in H. rewrite HR in H.
      cbn [mem] in H. inv H. reflexivity.
    - inv H. reflexivity.
    - destruct (existsb _ (g_ls (clear_log (sc_g s)))); inv H; reflexivity.
    - inv H. reflexivity.
    - destruct (remove_first (Nat.eqb o) (g_obs (clear_log (sc_g s)))); [|discriminate]. inv H. reflexivity.
  Qed.

  Lemma script_conf : forall f cs s tr,
      PInv body s -> lst_all (g_ls (sc_g s)) ->
      run_script orc imm f body s cs = Ok tr ->
      (root_done (sc_root s) = true \/ exists r, In r tr /\ cr_final r = true) ->
      exists R, RRoot (sc_root s) R /\ Permutation R (trace_devs tr).
  Proof.
    intros f cs. induction cs as [|c cs IH]; intros s tr HI Hl H Hfin; cbn [run_script] in H.
    - inv H. destruct Hfin as [Hd|(r & [] & _)].
      destruct (sc_root s) as [[|id'|cid i sti|sts|bb i sti|k i sti|sts]|]; try discriminate.
      exists []. split; [reflexivity|apply Permutation_refl].
    - destruct (api_call orc imm f body s c) as [[b s']| | |] eqn:E; try discriminate.
      cbn [rbind] in H.
      destruct (run_script orc imm f body s' cs) as [t| | |] eqn:E2; try discriminate.
      cbn [rbind] in H. inv H.
      pose proof (api_pinv _ _ _ _ _ _ _ _ HI E) as HI'.
      assert (Hl' : lst_all (g_ls (sc_g s'))).
      { rewrite (proj1 (proj2 (api_shape _ _ _ _ _ _ _ _ E))). apply lst_all_next. exact Hl. }
      assert (Hfin' : root_done (sc_root s') = true \/ exists r, In r t /\ cr_final r = true).
      { destruct Hfin as [Hd|(r & [<-|Hin] & Hf)].
        - left. exact (done_stays _ _ _ _ _ HI Hd E).
        - left. exact Hf.
        - right. exists r. split; assumption. }
      destruct (IH _ _ HI' Hl' E2 Hfin') as (R' & HR' & HP').
      destruct (api_conf _ _ _ _ _ HI Hl E _ HR') as (R & HR & HP).
      exists R. split; [exact HR|]. rewrite HP, HP'. apply Permutation_refl.
  Qed.

  (* ---- histories that are not complete: the residual of the state reached ---- *)
  Lemma api_fwd : forall f s c b s',
      api_call orc imm f body s c = Ok (b, s') ->
      forall R, RRoot (sc_root s) R -> exists R', RRoot (sc_root s') R'.
  Proof.
    intros f s c b s' H R HR.
    destruct c as [|id| |k l|o|o]; cbn [api_call] in H.
    - destruct (sc_root s) as [r0|] eqn:Hroot.
      + inv H. exists R. exact HR.
      + match type of H with match ?X with _ => _ end = _ => destruct X as [[st g']| | |] eqn:E end;
          try discriminate. inv H.
        cbn [RRoot] in HR. destruct HR as (mid & HD & _).
        mstep as u1 g1 E1. mstep as id g2 E2. mstep as u3 g3 E3. mstep as r g4 E4.
        destruct (proj1 (proj2 (start_fwd f)) _ _ _ _ _ _ _ E4 _ HD) as (Rb & HRb).
        destruct r as [[i sti]|].
        * mstep. eexists. cbn [sc_root RRoot]. exists Rb. split; [exact HRb|reflexivity].
        * mstep as u5 g5 E5. mstep. exists []. reflexivity.
    - change (g_awaited (clear_log (sc_g s))) with (g_awaited (sc_g s)) in H.
      destruct (mem id (g_awaited (sc_g s))).
      + destruct (sc_root s) as [[|id'|cid i sti|sts|bb i sti|k i sti|sts]|] eqn:Hroot; try discriminate.
        match type of H with match ?X with _ => _ end = _ => destruct X as [[st g']| | |] eqn:E end;
          try discriminate. inv H.
        cbn [RRoot] in HR. destruct HR as (Rb & HRb & _).
        mstep as u1 g1 E1. mstep as r g2 E2. destruct r as [r|]; [|discriminate].
        destruct (proj1 (proj2 (deliver_fwd f)) _ _ _ _ _ _ _ _ _ E2 _ HRb) as (Rb' & HRb').
        destruct r as [[j st']|].
        * mstep. eexists. cbn [sc_root RRoot]. exists Rb'. split; [exact HRb'|reflexivity].
        * mstep as u5 g5 E5. mstep. exists []. reflexivity.
      + inv H. exists R. exact HR.
    - inv H. exists R. exact HR.
    - destruct (existsb _ (g_ls (clear_log (sc_g s)))); inv H; exists R; exact HR.
    - inv H. exists R. exact HR.
    - destruct (remove_first (Nat.eqb o) (g_obs (clear_log (sc_g s)))); [|discriminate]. inv H.
      exists R. exact HR.
  Qed.

  Lemma script_conf_gen : forall f cs s tr sF,
      PInv body s -> lst_all (g_ls (sc_g s)) ->
      run_script orc imm f body s cs = Ok tr ->
      exec orc imm body f s cs = Ok sF ->
      forall R', RRoot (sc_root sF) R' ->
                 exists R, RRoot (sc_root s) R /\ Permutation R (trace_devs tr ++ R').
  Proof.
    intros f cs. induction cs as [|c cs IH]; intros s tr sF HI Hl H HX R' HR'; cbn [run_script] in H; cbn [exec] in HX.
    - inv H. inv HX. exists R'. split; [exact HR'|apply Permutation_refl].
    - destruct (api_call orc imm f body s c) as [[b s']| | |] eqn:E; try discriminate.
      cbn [rbind] in H, HX.
      destruct (run_script orc imm f body s' cs) as [t| | |] eqn:E2; try discriminate.
      cbn [rbind] in H. inv H.
      pose proof (api_pinv _ _ _ _ _ _ _ _ HI E) as HI'.
      assert (Hl' : lst_all (g_ls (sc_g s'))).
      { rewrite (proj1 (proj2 (api_shape _ _ _ _ _ _ _ _ E))). apply lst_all_next. exact Hl. }
      destruct (IH _ _ _ HI' Hl' E2 HX _ HR') as (R1 & HR1 & HP1).
      destruct (api_conf _ _ _ _ _ HI Hl E _ HR1) as (R & HR & HP).
      exists R. split; [exact HR|]. rewrite HP, HP1. unfold trace_devs. cbn [flat_map].
      rewrite app_assoc. apply Permutation_refl.
  Qed.

  Lemma script_fwd : forall f cs s sF,
      exec orc imm body f s cs = Ok sF ->
      forall R, RRoot (sc_root s) R -> exists R', RRoot (sc_root sF) R'.
  Proof.
    intros f cs. induction cs as [|c cs IH]; intros s sF HX R HR; cbn [exec] in HX.
    - inv HX. exists R. exact HR.
    - destruct (api_call orc imm f body s c) as [[b s']| | |] eqn:E; try discriminate.
      cbn [rbind] in HX. destruct (api_fwd _ _ _ _ _ E _ HR) as (R1 & HR1). eapply IH; eassumption.
  Qed.

  Lemma run_script_exec : forall f cs s tr,
      run_script orc imm f body s cs = Ok tr -> exists sF, exec orc imm body f s cs = Ok sF.
  Proof.
    intros f cs. induction cs as [|c cs IH]; intros s tr H; cbn [run_script] in H; cbn [exec].
    - eexists; reflexivity.
    - destruct (api_call orc imm f body s c) as [[b s']| | |] eqn:E; try discriminate.
      cbn [rbind] in H |- *.
      destruct (run_script orc imm f body s' cs) as [t| | |] eqn:E2; try discriminate.
      eapply IH; eassumption.
  Qed.
  End Run.
End Const.

(* ================================================================================== *)
(* 7. the theorems                                                                    *)
(* ================================================================================== *)

(* (2) the invariant, with the denotation and the residual both given *)
Corollary start_stmt_conf : forall orc imm f ctx ie s g st g',
    counter_free orc ->
    start_stmt orc imm f ctx ie s g = Ok (st, g') ->
    exists E, LogD E g g' /\
              forall D R, DS orc ie s D -> RS orc ie s st R -> Permutation D (E ++ R).
Proof.
  intros orc imm f ctx ie s g st g' Hc H.
  destruct (proj1 (start_conf orc Hc imm f) _ _ _ _ _ _ H) as (E & L & K).
  exists E. split; [exact L|]. intros D R HD HR. destruct (K _ HR) as (D' & HD' & HP).
  rewrite (DS_fun _ _ _ _ _ HD HD'). exact HP.
Qed.

(* ... and with the denotation computed by [den_stmt] at any sufficient fuel *)
Corollary start_stmt_den : forall orc imm f ctx ie s g st g' F D q' R,
    counter_free orc ->
    start_stmt orc imm f ctx ie s g = Ok (st, g') ->
    den_stmt orc F ie s (g_q g) = Ok (D, q') ->
    RS orc ie s st R ->
    exists E, LogD E g g' /\ Permutation D (E ++ R).
Proof.
  intros orc imm f ctx ie s g st g' F D q' R Hc H HD HR.
  destruct (proj1 (start_conf orc Hc imm f) _ _ _ _ _ _ H) as (E & L & K).
  exists E. split; [exact L|]. destruct (K _ HR) as (D' & (F' & HD') & HP).
  destruct (HD' (g_q g)) as (q2 & E2).
  pose proof (den_stmt_det _ _ _ _ _ _ _ _ HD E2) as X. inv X. exact HP.
Qed.

Corollary deliver_stmt_conf : forall orc imm f ctx ie s st id g st' g',
    counter_free orc ->
    deliver orc imm f ctx ie s st id g = Ok (Some st', g') -> wf s st ->
    exists E, LogD E g g' /\
              forall R', RS orc ie s st' R' -> exists R, RS orc ie s st R /\ Permutation R (E ++ R').
Proof. intros orc imm f ctx ie s st id g st' g' Hc. exact (proj1 (deliver_conf orc Hc imm f) ctx ie s st id g st' g'). Qed.

(* (2) once more, with the residual computed by [rest_stmt] *)
Corollary start_stmt_rest : forall orc imm f ctx ie s g st g' F R,
    counter_free orc ->
    start_stmt orc imm f ctx ie s g = Ok (st, g') ->
    rest_stmt orc F ie s st = Ok R ->
    exists E F' D q',
      LogD E g g' /\ den_stmt orc F' ie s (g_q g) = Ok (D, q') /\ Permutation D (E ++ R).
Proof.
  intros orc imm f ctx ie s g st g' F R Hc H HR.
  apply (proj1 (rest_sound orc Hc F)) in HR.
  destruct (proj1 (start_conf orc Hc imm f) _ _ _ _ _ _ H) as (E & L & K).
  destruct (K _ HR) as (D & (F' & HD) & HP). destruct (HD (g_q g)) as (q' & E').
  exists E, F', D, q'. split; [exact L|]. split; [exact E'|exact HP].
Qed.

Corollary deliver_stmt_rest : forall orc imm f ctx ie s st id g st' g' F R',
    counter_free orc ->
    deliver orc imm f ctx ie s st id g = Ok (Some st', g') -> wf s st ->
    rest_stmt orc F ie s st' = Ok R' ->
    exists E F' R,
      LogD E g g' /\ rest_stmt orc F' ie s st = Ok R /\ Permutation R (E ++ R').
Proof.
  intros orc imm f ctx ie s st id g st' g' F R' Hc H W HR'.
  apply (proj1 (rest_sound orc Hc F)) in HR'.
  destruct (proj1 (deliver_conf orc Hc imm f) _ _ _ _ _ _ _ _ H W) as (E & L & K).
  destruct (K _ HR') as (R & HR & HP).
  destruct (proj1 (rest_complete orc) _ _ _ _ HR) as (F' & HF).
  exists E, F', R. split; [exact L|]. split; [apply HF; apply Nat.le_refl|exact HP].
Qed.

(* (3) the whole history of an order that completed *)
Theorem confluence : forall orc imm f body cs tr,
    counter_free orc ->
    run_script orc imm f body sched0 cs = Ok tr ->
    (exists r, In r tr /\ cr_final r = true) ->
    exists F mid q',
      den_block orc F [] body 0 0 = Ok (mid, q') /\
      Permutation (trace_devs tr)
                  (DN TS production_task root_site [] :: mid ++ [DN TF production_task root_site []]).
Proof.
  intros orc imm f body cs tr Hc H Hf.
  destruct (script_conf orc Hc imm body f cs sched0 tr (PInv_sched0 body) lst_all_default H (or_intror Hf))
    as (R & HR & HP).
  cbn [sc_root sched0 RRoot] in HR. destruct HR as (mid & (F & HD) & ->). destruct (HD 0) as (q' & E).
  exists F, mid, q'. split; [exact E|]. apply Permutation_sym. exact HP.
Qed.

Theorem confluence_any_fuel : forall orc imm f body cs tr F mid q',
    counter_free orc ->
    run_script orc imm f body sched0 cs = Ok tr ->
    (exists r, In r tr /\ cr_final r = true) ->
    den_block orc F [] body 0 0 = Ok (mid, q') ->
    Permutation (trace_devs tr)
                (DN TS production_task root_site [] :: mid ++ [DN TF production_task root_site []]).
Proof.
  intros orc imm f body cs tr F mid q' Hc H Hf HD.
  destruct (confluence _ _ _ _ _ _ Hc H Hf) as (F0 & mid0 & q0 & HD0 & HP).
  pose proof (den_block_det _ _ _ _ _ _ _ _ _ HD HD0) as X. inv X. exact HP.
Qed.

Lemma last_In : forall A (l : list A) d, l <> [] -> In (last l d) l.
Proof.
  intros A l d Hn. rewrite (app_removelast_last d Hn) at 2. apply in_or_app. right. left. reflexivity.
Qed.

Corollary confluence_last : forall orc imm f body cs tr r0,
    counter_free orc ->
    run_script orc imm f body sched0 cs = Ok tr ->
    tr <> [] -> cr_final (last tr r0) = true ->
    exists F mid q',
      den_block orc F [] body 0 0 = Ok (mid, q') /\
      Permutation (trace_devs tr)
                  (DN TS production_task root_site [] :: mid ++ [DN TF production_task root_site []]).
Proof.
  intros orc imm f body cs tr r0 Hc H Hn Hf. eapply confluence; [exact Hc|exact H|].
  exists (last tr r0). split; [apply last_In; exact Hn|exact Hf].
Qed.

(* counting: every event occurs in the history exactly as often as in the denotation *)
Lemma perm_filter_length : forall A (p : A -> bool) l1 l2,
    Permutation l1 l2 -> List.length (filter p l1) = List.length (filter p l2).
Proof.
  intros A p l1 l2 H. induction H as [|x l1 l2 H IH|x y l|l1 l2 l3 H1 IH1 H2 IH2]; cbn [filter].
  - reflexivity.
  - destruct (p x); cbn [List.length]; congruence.
  - destruct (p x), (p y); reflexivity.
  - congruence.
Qed.

Corollary confluence_count : forall orc imm f body cs tr F mid q' (p : dev -> bool),
    counter_free orc ->
    run_script orc imm f body sched0 cs = Ok tr ->
    (exists r, In r tr /\ cr_final r = true) ->
    den_block orc F [] body 0 0 = Ok (mid, q') ->
    List.length (filter p (trace_devs tr)) =
    List.length (filter p (DN TS production_task root_site [] :: mid ++ [DN TF production_task root_site []])).
Proof. intros. apply perm_filter_length. eapply confluence_any_fuel; eassumption. Qed.

Corollary confluence_count_occ : forall (dec : forall a b : dev, {a = b} + {a <> b})
                                        orc imm f body cs tr F mid q' (e : dev),
    counter_free orc ->
    run_script orc imm f body sched0 cs = Ok tr ->
    (exists r, In r tr /\ cr_final r = true) ->
    den_block orc F [] body 0 0 = Ok (mid, q') ->
    count_occ dec (trace_devs tr) e =
    count_occ dec (DN TS production_task root_site [] :: mid ++ [DN TF production_task root_site []]) e.
Proof. intros. apply Permutation_count_occ. eapply confluence_any_fuel; eassumption. Qed.

(* ---- histories that are not complete ---- *)
(* whenever the denotation of the body exists (some fuel suffices), at every point of every
   history: what was emitted so far, plus the residual of the state reached, is a permutation
   of "started, denotation, finished" *)
Theorem confluence_prefix : forall orc imm f body cs tr F mid q',
    counter_free orc ->
    run_script orc imm f body sched0 cs = Ok tr ->
    den_block orc F [] body 0 0 = Ok (mid, q') ->
    exists sF rest,
      exec orc imm body f sched0 cs = Ok sF /\
      RRoot orc body (sc_root sF) rest /\
      Permutation (DN TS production_task root_site [] :: mid ++ [DN TF production_task root_site []])
                  (trace_devs tr ++ rest).
Proof.
  intros orc imm f body cs tr F mid q' Hc H HD.
  destruct (run_script_exec orc imm body f cs sched0 tr H) as (sF & HX).
  assert (HR0 : RRoot orc body (sc_root sched0)
                      (DN TS production_task root_site [] :: mid ++ [DN TF production_task root_site []])).
  { cbn [sc_root sched0 RRoot]. exists mid. split; [eapply DB_of_den; eassumption|reflexivity]. }
  destruct (script_fwd orc Hc imm body f cs sched0 sF HX _ HR0) as (rest & Hrest).
  destruct (script_conf_gen orc Hc imm body f cs sched0 tr sF (PInv_sched0 body) lst_all_default H HX _ Hrest)
    as (R & HR & HP).
  exists sF, rest. split; [exact HX|]. split; [exact Hrest|].
  cbn [sc_root sched0 RRoot] in HR. destruct HR as (mid0 & HD0 & ->).
  rewrite (DB_fun orc _ _ _ _ _ HD0 (DB_of_den orc Hc _ _ _ _ _ _ _ HD)) in HP. exact HP.
Qed.

Lemma filter_length_app_le : forall A (p : A -> bool) l1 l2,
    List.length (filter p l1) <= List.length (filter p (l1 ++ l2)).
Proof. intros. rewrite filter_app, app_length. lia. Qed.

(* safety: at no point of any history has an event occurred more often than in the denotation *)
Corollary confluence_prefix_count : forall orc imm f body cs tr F mid q' (p : dev -> bool),
    counter_free orc ->
    run_script orc imm f body sched0 cs = Ok tr ->
    den_block orc F [] body 0 0 = Ok (mid, q') ->
    List.length (filter p (trace_devs tr)) <=
    List.length (filter p (DN TS production_task root_site [] :: mid ++ [DN TF production_task root_site []])).
Proof.
  intros orc imm f body cs tr F mid q' p Hc H HD.
  destruct (confluence_prefix _ _ _ _ _ _ _ _ _ Hc H HD) as (sF & rest & _ & _ & HP).
  rewrite (perm_filter_length _ p _ _ HP). apply filter_length_app_le.
Qed.

(* ================================================================================== *)
(* 8. C05: a counting loop with a literal limit, under every schedule                  *)
(* ================================================================================== *)

(* the denotation of a counting loop with literal limit N, entered at iteration k, is the
   concatenation of the body's denotations for the indices k .. N-1 (any oracle) *)
Lemma den_count_literal : forall orc F ie v N b k q D q',
    den_loop orc F ie (XCount v (LimInt N) b) k q = Ok (D, q') ->
    exists Ds, D = concat Ds /\ List.length Ds = N - k /\
               forall j, j < N - k ->
                         exists qa qb, den_block orc F ((v, k + j) :: ie) b 0 qa = Ok (nth j Ds [], qb).
Proof.
  intros orc F. induction F as [|F IH]; intros ie v N b k q D q' H; [discriminate|].
  rewrite den_loop_S in H. cbn [den_limit rbind] in H.
  destruct (Z.of_nat k <? Z.of_nat N)%Z eqn:Hk.
  - apply Z.ltb_lt in Hk.
    destruct (den_block orc F ((v, k) :: ie) b 0 q) as [[e1 q2]| | |] eqn:E1; cbn [rbind] in H; try discriminate.
    destruct (den_loop orc F ie (XCount v (LimInt N) b) (S k) q2) as [[e2 q3]| | |] eqn:E2; cbn [rbind] in H; try discriminate.
    inv H. destruct (IH _ _ _ _ _ _ _ _ E2) as (Ds & -> & Hlen & Hj).
    exists (e1 :: Ds). split; [reflexivity|]. split; [cbn [List.length]; lia|].
    intros j Hlt. destruct j as [|j].
    + rewrite Nat.add_0_r. exists q, q2. cbn [nth]. apply (proj1 (proj2 (den_mono orc F))). exact E1.
    + destruct (Hj j) as (qa & qb & E); [lia|]. exists qa, qb. cbn [nth].
      replace (k + S j) with (S k + j) by lia. apply (proj1 (proj2 (den_mono orc F))). exact E.
  - apply Z.ltb_ge in Hk. inv H. exists []. split; [reflexivity|]. split; [cbn [List.length]; lia|].
    intros j Hlt. lia.
Qed.

(* an order that consists of one counting loop with literal limit N: whatever the completion
   order, the history is a permutation of "production task started, the body's denotation for
   the indices 0, 1, ..., N-1, production task finished" *)
Theorem C05_literal_loop_all_schedules : forall orc imm f cs tr v N b,
    counter_free orc ->
    run_script orc imm f [XCount v (LimInt N) b] sched0 cs = Ok tr ->
    (exists r, In r tr /\ cr_final r = true) ->
    exists Ds, List.length Ds = N /\
               (forall k, k < N -> exists Fk qa qb,
                     den_block orc Fk [(v, k)] b 0 qa = Ok (nth k Ds [], qb)) /\
               Permutation (trace_devs tr)
                           (DN TS production_task root_site [] :: concat Ds ++ [DN TF production_task root_site []]).
Proof.
  intros orc imm f cs tr v N b Hc H Hf.
  destruct (confluence _ _ _ _ _ _ Hc H Hf) as (F & mid & q' & HD & HP).
  destruct F as [|F]; [discriminate|]. rewrite den_block_S in HD. cbn [nth_error] in HD.
  destruct (den_stmt orc F [] (XCount v (LimInt N) b) 0) as [[e1 q1]| | |] eqn:E1; cbn [rbind] in HD; try discriminate.
  destruct (den_block orc F [] [XCount v (LimInt N) b] 1 q1) as [[e2 q2]| | |] eqn:E2; cbn [rbind] in HD; try discriminate.
  inv HD.
  destruct F as [|F]; [discriminate|]. rewrite den_block_S in E2. cbn [nth_error] in E2. inv E2.
  rewrite den_stmt_S in E1.
  destruct (den_count_literal _ _ _ _ _ _ _ _ _ _ E1) as (Ds & -> & Hlen & Hj).
  exists Ds. split; [lia|]. split.
  - intros k Hk. destruct (Hj k) as (qa & qb & E); [lia|]. exists F, qa, qb. exact E.
  - rewrite app_nil_r in HP. exact HP.
Qed.

(* the instance "one service in the loop": it is started exactly N times *)
Definition is_start_of (n : name) (a : site) (e : dev) : bool :=
  match e with
  | DN SS n' a' _ => Nat.eqb n' n && site_eqb a' a
  | _ => false
  end.

Lemma site_eqb_refl : forall a, site_eqb a a = true.
Proof.
  intros [t p]. unfold site_eqb. cbn. rewrite Nat.eqb_refl. cbn.
  induction p as [|x p IH]; cbn; [reflexivity|]. rewrite Nat.eqb_refl. exact IH.
Qed.

Theorem C05_service_in_literal_loop : forall orc imm f cs tr v N n a ins,
    counter_free orc ->
    run_script orc imm f [XCount v (LimInt N) [XService n a ins]] sched0 cs = Ok tr ->
    (exists r, In r tr /\ cr_final r = true) ->
    List.length (filter (is_start_of n a) (trace_devs tr)) = N.
Proof.
  intros orc imm f cs tr v N n a ins Hc H Hf.
  destruct (C05_literal_loop_all_schedules _ _ _ _ _ _ _ _ Hc H Hf) as (Ds & Hlen & Hk & HP).
  rewrite (perm_filter_length _ (is_start_of n a) _ _ HP).
  cbn [filter is_start_of]. rewrite filter_app. cbn [filter is_start_of]. rewrite app_nil_r.
  assert (G : forall (L : list (list dev)) m,
             (forall k, k < List.length L ->
                        exists Fk qa qb, den_block orc Fk [(v, m + k)] [XService n a ins] 0 qa = Ok (nth k L [], qb)) ->
             List.length (filter (is_start_of n a) (concat L)) = List.length L).
  { induction L as [|D L IH]; intros m HL; [reflexivity|].
    cbn [concat]. rewrite filter_app, app_length. cbn [List.length]. rewrite (IH (S m)).
    - destruct (HL 0) as (Fk & qa & qb & E); [cbn; lia|]. cbn [nth] in E.
      destruct Fk as [|Fk]; [discriminate|]. rewrite den_block_S in E. cbn [nth_error] in E.
      destruct Fk as [|Fk]; [discriminate|]. rewrite den_stmt_S in E. cbn [rbind] in E.
      destruct (den_block orc (S Fk) [(v, m + 0)] [XService n a ins] 1 qa) as [[e2 q2]| | |] eqn:E2;
        cbn [rbind] in E; try discriminate.
      rewrite den_block_S in E2. cbn [nth_error] in E2. inv E2. inv E.
      cbn [app filter is_start_of]. rewrite Nat.eqb_refl, site_eqb_refl. reflexivity.
    - intros k Hlt. destruct (HL (S k)) as (Fk & qa & qb & E); [cbn; lia|].
      exists Fk, qa, qb. cbn [nth] in E. replace (S m + k) with (m + S k) by lia. exact E. }
  rewrite (G Ds 0); [exact Hlen|]. intros k Hlt. rewrite Hlen in Hlt. exact (Hk k Hlt).
Qed.

(* the same order, any history (complete or not): never more than N starts *)
Lemma den_single_service_block : forall orc x ie n a ins q,
    den_block orc (S (S (S x))) ie [XService n a ins] 0 q =
    Ok ([DN SS n a (subst_params ie ins); DN SF n a (subst_params ie ins)], q).
Proof.
  intros. rewrite den_block_S. cbn [nth_error]. rewrite den_stmt_S. cbn [rbind].
  rewrite den_block_S. cbn [nth_error rbind app]. reflexivity.
Qed.

Lemma den_single_service_loop : forall orc ie v N n a ins m k q,
    N - k = m ->
    den_loop orc (m + 4) ie (XCount v (LimInt N) [XService n a ins]) k q =
    Ok (flat_map (fun j => [DN SS n a (subst_params ((v, j) :: ie) ins);
                            DN SF n a (subst_params ((v, j) :: ie) ins)]) (seq k m), q).
Proof.
  intros orc ie v N n a ins m. induction m as [|m IH]; intros k q Hm.
  - cbn [Nat.add]. rewrite den_loop_S. cbn [den_limit rbind].
    replace (Z.of_nat k <? Z.of_nat N)%Z with false by (symmetry; apply Z.ltb_ge; lia). reflexivity.
  - replace (S m + 4) with (S (m + 4)) by lia. rewrite den_loop_S. cbn [den_limit rbind].
    replace (Z.of_nat k <? Z.of_nat N)%Z with true by (symmetry; apply Z.ltb_lt; lia).
    replace (m + 4) with (S (S (S (S m)))) at 1 by lia. rewrite den_single_service_block. cbn [rbind].
    rewrite (IH (S k) q) by lia. cbn [rbind seq flat_map app]. reflexivity.
Qed.

Theorem C05_service_in_literal_loop_at_most : forall orc imm f cs tr v N n a ins,
    counter_free orc ->
    run_script orc imm f [XCount v (LimInt N) [XService n a ins]] sched0 cs = Ok tr ->
    List.length (filter (is_start_of n a) (trace_devs tr)) <= N.
Proof.
  intros orc imm f cs tr v N n a ins Hc H.
  set (Dk := fun j => [DN SS n a (subst_params [(v, j)] ins); DN SF n a (subst_params [(v, j)] ins)]).
  assert (HD : den_block orc (S (S (N + 4))) [] [XCount v (LimInt N) [XService n a ins]] 0 0 =
               Ok (flat_map Dk (seq 0 N) ++ [], 0)).
  { rewrite den_block_S. cbn [nth_error]. rewrite den_stmt_S.
    rewrite (den_single_service_loop orc [] v N n a ins N 0 0) by lia. cbn [rbind].
    rewrite den_block_S. cbn [nth_error rbind]. reflexivity. }
  pose proof (confluence_prefix_count _ _ _ _ _ _ _ _ _ (is_start_of n a) Hc H HD) as HL.
  eapply Nat.le_trans; [exact HL|].
  cbn [filter is_start_of]. rewrite !filter_app. cbn [filter is_start_of]. rewrite !app_nil_r.
  assert (G : forall k m, List.length (filter (is_start_of n a) (flat_map Dk (seq k m))) = m).
  { intros k m. revert k. induction m as [|m IHm]; intro k; [reflexivity|].
    cbn [seq flat_map]. rewrite filter_app, app_length, IHm. unfold Dk. cbn [filter is_start_of].
    rewrite Nat.eqb_refl, site_eqb_refl. reflexivity. }
  rewrite G. apply Nat.le_refl.
Qed.

(* ================================================================================== *)
(* 9. non-vacuity: a Parallel of two tasks followed by a counting loop whose limit is  *)
(*    read from a variable; completions out of source order, junk, duplicates, a        *)
(*    second start(), one service completed from inside its own notification           *)
(* ================================================================================== *)
Module ConfluenceExample.
  Definition sA : site := {| st_task := production_task; st_path := [0; 0] |}.
  Definition sB : site := {| st_task := production_task; st_path := [0; 1] |}.
  Definition s1 : site := {| st_task := 1; st_path := [0] |}.
  Definition s2 : site := {| st_task := 1; st_path := [1] |}.
  Definition s3 : site := {| st_task := 2; st_path := [0] |}.
  Definition s4 : site := {| st_task := production_task; st_path := [1; 0] |}.
  Definition body : list xstmt :=
    [ XParallel [ XCall 1 sA [] [XService 10 s1 []; XService 11 s2 []];
                  XCall 2 sB [] [XService 12 s3 []] ];
      XCount 5 (LimPath 7 []) [XService 13 s4 [PPath 8 [PIdxVar 5]]] ].
  Definition rho : name -> option value :=
    fun v => if Nat.eqb v 7 then Some (VNum 2) else None.
  Definition imm : nat -> bool := fun k => Nat.eqb k 3.
  Definition script : list apicall :=
    [AStart; AFinish 1; AJunk; AFinish 0; AFinish 1; AStart; AFinish 2; AFinish 7; AFinish 4; AFinish 4].
End ConfluenceExample.

Example confluence_nonvacuous :
  exists tr mid q',
    run_script (corc ConfluenceExample.rho) ConfluenceExample.imm 50 ConfluenceExample.body sched0
               ConfluenceExample.script = Ok tr
    /\ (exists r, In r tr /\ cr_final r = true)
    /\ den_block (corc ConfluenceExample.rho) 50 [] ConfluenceExample.body 0 0 = Ok (mid, q')
    /\ trace_devs tr <> DN TS production_task root_site [] :: mid ++ [DN TF production_task root_site []]
    /\ Permutation (trace_devs tr)
                   (DN TS production_task root_site [] :: mid ++ [DN TF production_task root_site []]).
Proof.
  destruct (run_script (corc ConfluenceExample.rho) ConfluenceExample.imm 50 ConfluenceExample.body sched0
                       ConfluenceExample.script) as [tr| | |] eqn:E1;
    [|exfalso; vm_compute in E1; discriminate E1 ..].
  destruct (den_block (corc ConfluenceExample.rho) 50 [] ConfluenceExample.body 0 0) as [[mid q']| | |] eqn:E2;
    [|exfalso; vm_compute in E2; discriminate E2 ..].
  exists tr, mid, q'.
  assert (Hf : exists r, In r tr /\ cr_final r = true).
  { apply existsb_exists. vm_compute in E1. inv E1. vm_compute. reflexivity. }
  split; [reflexivity|]. split; [exact Hf|]. split; [reflexivity|]. split.
  - vm_compute in E1, E2. inv E1. inv E2. vm_compute. intro X. discriminate X.
  - eapply confluence_any_fuel; [apply corc_counter_free|eassumption..].
Qed.

(* ================================================================================== *)
(* 10. the hypothesis on the oracle is needed                                          *)
(* ================================================================================== *)
(* With an oracle whose answers depend on the query counter the multiset of events depends
   on the completion order: two parallel tasks each test the same variable after their
   first service; the oracle answers true to the first query only.  Whichever task's
   service is completed first gets the true answer and runs its extra service. *)
Module NeedsCounterFree.
  Definition sA : site := {| st_task := production_task; st_path := [0; 0] |}.
  Definition sB : site := {| st_task := production_task; st_path := [0; 1] |}.
  Definition s1 : site := {| st_task := 1; st_path := [0] |}.
  Definition s2 : site := {| st_task := 1; st_path := [1; 0; 0] |}.
  Definition s3 : site := {| st_task := 2; st_path := [0] |}.
  Definition s4 : site := {| st_task := 2; st_path := [1; 0; 0] |}.
  Definition body : list xstmt :=
    [ XParallel [ XCall 1 sA [] [XService 10 s1 []; XCond (EPath 7 []) [XService 11 s2 []] []];
                  XCall 2 sB [] [XService 12 s3 []; XCond (EPath 7 []) [XService 13 s4 []] []] ] ].
  Definition orc : oracle := fun q _ => Some (VBool (Nat.eqb q 0)).
  Definition never : nat -> bool := fun _ => false.
  Definition script1 : list apicall := [AStart; AFinish 0; AFinish 1; AFinish 2].
  Definition script2 : list apicall := [AStart; AFinish 1; AFinish 0; AFinish 2].
End NeedsCounterFree.

Example confluence_needs_counter_free :
  exists tr1 tr2,
    run_script NeedsCounterFree.orc NeedsCounterFree.never 50 NeedsCounterFree.body sched0
               NeedsCounterFree.script1 = Ok tr1
    /\ run_script NeedsCounterFree.orc NeedsCounterFree.never 50 NeedsCounterFree.body sched0
                  NeedsCounterFree.script2 = Ok tr2
    /\ existsb cr_final tr1 = true /\ existsb cr_final tr2 = true
    /\ ~ Permutation (trace_devs tr1) (trace_devs tr2).
Proof.
  destruct (run_script NeedsCounterFree.orc NeedsCounterFree.never 50 NeedsCounterFree.body sched0
                       NeedsCounterFree.script1) as [tr1| | |] eqn:E1;
    [|exfalso; vm_compute in E1; discriminate E1 ..].
  destruct (run_script NeedsCounterFree.orc NeedsCounterFree.never 50 NeedsCounterFree.body sched0
                       NeedsCounterFree.script2) as [tr2| | |] eqn:E2;
    [|exfalso; vm_compute in E2; discriminate E2 ..].
  exists tr1, tr2. vm_compute in E1, E2. inv E1. inv E2.
  split; [reflexivity|]. split; [reflexivity|]. split; [vm_compute; reflexivity|].
  split; [vm_compute; reflexivity|].
  intro P. apply (perm_filter_length _ (is_start_of 11 NeedsCounterFree.s2)) in P.
  vm_compute in P. discriminate P.
Qed.

(* ================================================================================== *)
(* 11. run cases of the harness: one value for all queries                             *)
(* ================================================================================== *)
Lemma orc_of_counter_free : forall vals, List.length vals <= 1 -> counter_free (orc_of vals).
Proof.
  intros vals Hl q q' v. unfold orc_of.
  replace (Nat.min q (List.length vals - 1)) with 0 by lia.
  replace (Nat.min q' (List.length vals - 1)) with 0 by lia. reflexivity.
Qed.

Theorem confluence_run_ref : forall (c : runcase) tr,
    List.length (rc_vals c) <= 1 ->
    run_ref c = Ok tr ->
    (exists r, In r tr /\ cr_final r = true) ->
    exists body F mid q',
      unfold_program (p_tasks (rc_prog c)) 200 = Ok body /\
      den_block (orc_of (rc_vals c)) F [] body 0 0 = Ok (mid, q') /\
      Permutation (trace_devs tr)
                  (DN TS production_task root_site [] :: mid ++ [DN TF production_task root_site []]).
Proof.
  intros c tr Hl H Hf. unfold run_ref in H.
  destruct (existsb _ (rc_react c)); [discriminate|].
  destruct (unfold_program (p_tasks (rc_prog c)) 200) as [body| | |]; try discriminate.
  cbn [rbind] in H.
  destruct (confluence _ _ _ _ _ _ (orc_of_counter_free _ Hl) H Hf) as (F & mid & q' & HD & HP).
  exists body, F, mid, q'. split; [reflexivity|]. split; assumption.
Qed.

(* ================================================================================== *)
(* 12. decidable equality of erased events, and the count_occ form                     *)
(* ================================================================================== *)
Lemma Q_eq_dec : forall a b : Q, {a = b} + {a <> b}.
Proof. decide equality; [apply Pos.eq_dec|apply Z.eq_dec]. Defined.

Lemma json_eq_dec : forall a b : json, {a = b} + {a <> b}.
Proof.
  fix IH 1. intros a b. decide equality.
  - apply Q_eq_dec.
  - apply Bool.bool_dec.
  - apply Nat.eq_dec.
  - apply list_eq_dec. intros [n1 j1] [n2 j2]. decide equality. apply Nat.eq_dec.
  - apply list_eq_dec. exact IH.
Defined.

Lemma pelem_eq_dec : forall a b : pelem, {a = b} + {a <> b}.
Proof. decide equality; apply Nat.eq_dec. Defined.

Lemma param_eq_dec : forall a b : param, {a = b} + {a <> b}.
Proof.
  decide equality; try apply Nat.eq_dec; try apply json_eq_dec.
  apply list_eq_dec. apply pelem_eq_dec.
Defined.

Lemma site_eq_dec : forall a b : site, {a = b} + {a <> b}.
Proof. decide equality; [apply list_eq_dec; apply Nat.eq_dec|apply Nat.eq_dec]. Defined.

Lemma dev_eq_dec : forall a b : dev, {a = b} + {a <> b}.
Proof.
  decide equality; try apply Nat.eq_dec.
  - apply list_eq_dec. apply param_eq_dec.
  - apply site_eq_dec.
  - decide equality.
Defined.

Corollary confluence_count_occ_dev : forall orc imm f body cs tr F mid q' (e : dev),
    counter_free orc ->
    run_script orc imm f body sched0 cs = Ok tr ->
    (exists r, In r tr /\ cr_final r = true) ->
    den_block orc F [] body 0 0 = Ok (mid, q') ->
    count_occ dev_eq_dec (trace_devs tr) e =
    count_occ dev_eq_dec (DN TS production_task root_site [] :: mid ++ [DN TF production_task root_site []]) e.
Proof. intros. eapply confluence_count_occ; eassumption. Qed.

(* ================================================================================== *)
(* 13. the termination caveat, as a theorem: an order whose body contains (at top      *)
(*     level) a while loop whose guard is true under the valuation never completes     *)
(* ================================================================================== *)
Lemma den_while_true_diverges : forall orc F ie e b k q r,
    cdecide orc e true -> den_loop orc F ie (XWhile e b) k q <> Ok r.
Proof.
  intros orc F. induction F as [|F IH]; intros ie e b k q r C H; [discriminate|].
  rewrite den_loop_S in H. destruct (C q) as (q1 & E0). rewrite E0 in H. cbn [rbind] in H.
  destruct (den_block orc F ie b 0 q1) as [[e1 q2]| | |]; cbn [rbind] in H; try discriminate.
  destruct (den_loop orc F ie (XWhile e b) (S k) q2) as [[e2 q3]| | |] eqn:E2; cbn [rbind] in H; try discriminate.
  exact (IH _ _ _ _ _ _ C E2).
Qed.

Lemma den_block_needs_all : forall orc F ie ss i s j q r,
    den_block orc F ie ss j q = Ok r -> j <= i -> nth_error ss i = Some s ->
    exists q1 r1, den_stmt orc F ie s q1 = Ok r1.
Proof.
  intros orc F. induction F as [|F IH]; intros ie ss i s j q r H Hle N; [discriminate|].
  rewrite den_block_S in H.
  destruct (nth_error ss j) as [sj|] eqn:Nj.
  - destruct (den_stmt orc F ie sj q) as [[e1 q1]| | |] eqn:E1; cbn [rbind] in H; try discriminate.
    destruct (den_block orc F ie ss (S j) q1) as [[e2 q2]| | |] eqn:E2; cbn [rbind] in H; try discriminate.
    destruct (Nat.eq_dec j i) as [->|Hne].
    + rewrite N in Nj. inv Nj. exists q, (e1, q1). apply (proj1 (den_mono orc F)). exact E1.
    + assert (Hle' : S j <= i) by lia.
      destruct (IH _ _ _ _ _ _ _ E2 Hle' N) as (qa & ra & Ea).
      exists qa, ra. apply (proj1 (den_mono orc F)). exact Ea.
  - exfalso. apply nth_error_None in Nj. assert (Hi : i < List.length ss) by (apply nth_error_Some; congruence). lia.
Qed.

Theorem while_true_never_completes : forall orc imm f body cs tr i e b,
    counter_free orc ->
    nth_error body i = Some (XWhile e b) -> cdecide orc e true ->
    run_script orc imm f body sched0 cs = Ok tr ->
    forall r, In r tr -> cr_final r = false.
Proof.
  intros orc imm f body cs tr i e b Hc N C H r Hin.
  destruct (cr_final r) eqn:Hf; [|reflexivity]. exfalso.
  destruct (confluence _ _ _ _ _ _ Hc H (ex_intro _ r (conj Hin Hf))) as (F & mid & q' & HD & _).
  destruct (den_block_needs_all _ _ _ _ _ _ _ _ _ HD (Nat.le_0_l i) N) as (q1 & r1 & E).
  destruct F as [|F]; [discriminate|]. rewrite den_stmt_S in E.
  exact (den_while_true_diverges _ _ _ _ _ _ _ _ C E).
Qed.

Lemma cdecide_of_decide : forall orc e q b q',
    counter_free orc -> decide expected_ops orc e q = Ok (b, q') -> cdecide orc e b.
Proof.
  intros orc e q b q' Hc E q2. unfold den_decide.
  destruct (decide_const orc Hc _ _ _ _ _ E q2) as (k & E'). rewrite E'. eexists; reflexivity.
Qed.

Corollary while_true_never_completes_decide : forall orc imm f body cs tr i e b q0,
    counter_free orc ->
    nth_error body i = Some (XWhile e b) ->
    decide expected_ops orc e 0 = Ok (true, q0) ->
    run_script orc imm f body sched0 cs = Ok tr ->
    forall r, In r tr -> cr_final r = false.
Proof.
  intros orc imm f body cs tr i e b q0 Hc N E. eapply while_true_never_completes; [exact Hc|exact N|].
  eapply cdecide_of_decide; eassumption.
Qed.

(* ================================================================================== *)
(* 14. non-vacuity of the prefix theorem, with the residual computed by [rest_block]    *)
(* ================================================================================== *)
Example confluence_prefix_nonvacuous :
  let script := [AStart; AFinish 1; AJunk; AFinish 0] in
  exists tr sF cid i st R mid q',
    run_script (corc ConfluenceExample.rho) ConfluenceExample.imm 50 ConfluenceExample.body sched0 script = Ok tr
    /\ exec (corc ConfluenceExample.rho) ConfluenceExample.imm ConfluenceExample.body 50 sched0 script = Ok sF
    /\ sc_root sF = Some (RCall cid i st)
    /\ rest_block (corc ConfluenceExample.rho) 50 [] ConfluenceExample.body i st = Ok R
    /\ List.length R = 9
    /\ den_block (corc ConfluenceExample.rho) 50 [] ConfluenceExample.body 0 0 = Ok (mid, q')
    /\ Permutation (DN TS production_task root_site [] :: mid ++ [DN TF production_task root_site []])
                   (trace_devs tr ++ R ++ [DN TF production_task root_site []]).
Proof.
  intro script.
  destruct (run_script (corc ConfluenceExample.rho) ConfluenceExample.imm 50 ConfluenceExample.body sched0 script)
    as [tr| | |] eqn:E1; [|exfalso; vm_compute in E1; discriminate E1 ..].
  destruct (exec (corc ConfluenceExample.rho) ConfluenceExample.imm ConfluenceExample.body 50 sched0 script)
    as [sF| | |] eqn:EX; [|exfalso; vm_compute in EX; discriminate EX ..].
  destruct (den_block (corc ConfluenceExample.rho) 50 [] ConfluenceExample.body 0 0) as [[mid q']| | |] eqn:E2;
    [|exfalso; vm_compute in E2; discriminate E2 ..].
  destruct (sc_root sF) as [[|id'|cid i st|sts|bb i st|k i st|sts]|] eqn:ER;
    try (exfalso; vm_compute in EX; inv EX; discriminate ER).
  destruct (rest_block (corc ConfluenceExample.rho) 50 [] ConfluenceExample.body i st) as [R| | |] eqn:ERB;
    try (exfalso; vm_compute in EX; inv EX; cbn in ER; inv ER; vm_compute in ERB; discriminate ERB).
  exists tr, sF, cid, i, st, R, mid, q'.
  split; [reflexivity|]. split; [reflexivity|]. split; [exact ER|]. split; [exact ERB|]. split.
  { clear - EX ER ERB. vm_compute in EX. inv EX. cbn in ER. inv ER. vm_compute in ERB. inv ERB. reflexivity. }
  split; [reflexivity|].
  apply (proj1 (proj2 (rest_sound _ (corc_counter_free _) _))) in ERB.
  destruct (script_conf_gen _ (corc_counter_free _) _ _ _ _ _ _ _ (PInv_sched0 _) lst_all_default E1 EX
                            (R ++ [DN TF production_task root_site []])) as (R0 & HR0 & HP).
  { rewrite ER. cbn [RRoot]. exists R. split; [exact ERB|reflexivity]. }
  cbn [sc_root sched0 RRoot] in HR0. destruct HR0 as (mid0 & HD0 & ->).
  rewrite (DB_fun _ _ _ _ _ _ HD0 (DB_of_den _ (corc_counter_free _) _ _ _ _ _ _ _ E2)) in HP. exact HP.
Qed.
