(* RefConfluence.v — the denotation of RefDen.v describes EVERY schedule, up to interleaving.
   [sync_den] covers the one schedule in which every service completes from inside its own
   notification.  Here: for an oracle that does not depend on the query counter
   ([corc rho := fun _ v => rho v]), for ANY choice of immediate completions [imm] and ANY
   script of API calls (completions in any order, junk, duplicates, registrations, observers),
   the events issued over the whole history are a permutation of
       production task started, den_block of its body, production task finished.
   The proof goes through a "residual denotation" [RS]/[RB]/[RL]: the events still to come
   from a partially executed statement, read off the program tree and the state tree.
   Invariant: what a start / a delivery emits now, plus the residual afterwards, is (a
   permutation of) the denotation / the residual before.  Proof file. *)
From PFDL Require Import RefSem RunCase Monitors RefBase RefClosure RefShape RefDen RefC08 RefProgress RefC01.
From Coq Require Import Lia Permutation.

(* the oracle that answers from one fixed valuation, whatever the query counter *)
Definition corc (rho : name -> option value) : oracle := fun _ v => rho v.

(* ================================================================================== *)
(* 0. generalities: fuel monotonicity of the denotation, permutation bookkeeping       *)
(* ================================================================================== *)

Ltac rb_destruct H :=
  repeat match type of H with
         | rbind ?x _ = Ok _ =>
           let E := fresh "E" in
           destruct x as [[? ?]| | |] eqn:E; cbn [rbind] in H; [|discriminate H ..]
         | (let '(_, _) := ?p in _) = Ok _ => destruct p
         end.

Section Mono.
  Variable orc : oracle.

  Lemma den_mono : forall f,
      (forall ie s q r, den_stmt orc f ie s q = Ok r -> den_stmt orc (S f) ie s q = Ok r) /\
      (forall ie ss i q r, den_block orc f ie ss i q = Ok r -> den_block orc (S f) ie ss i q = Ok r) /\
      (forall l q r, den_list orc f l q = Ok r -> den_list orc (S f) l q = Ok r) /\
      (forall ie s k q r, den_loop orc f ie s k q = Ok r -> den_loop orc (S f) ie s k q = Ok r).
  Proof.
    induction f as [|f IH]; [split; [|split; [|split]]; intros; discriminate|].
    destruct IH as (IHs & IHb & IHl & IHt).
    split; [|split; [|split]].
    - intros ie s q r H. rewrite den_stmt_S in H. rewrite den_stmt_S.
      destruct s as [n at_ ins|t at_ ins body|bs|e p fl|e b|v lim b|v lim c].
      + exact H.
      + destruct (den_block orc f [] body 0 q) as [[evs q']| | |] eqn:E; cbn [rbind] in H; try discriminate.
        rewrite (IHb _ _ _ _ _ E). exact H.
      + apply IHl. exact H.
      + destruct (den_decide orc e q) as [[[b d] q1]| | |]; cbn [rbind] in *; try discriminate.
        destruct (den_block orc f ie (if b then p else fl) 0 q1) as [[evs q2]| | |] eqn:E; cbn [rbind] in H; try discriminate.
        rewrite (IHb _ _ _ _ _ E). exact H.
      + apply IHt. exact H.
      + apply IHt. exact H.
      + destruct (den_limit orc lim q) as [[[n d] q1]| | |]; cbn [rbind] in *; try discriminate.
        destruct (den_list orc f (insts ie v c (Z.to_nat n)) q1) as [[evs q2]| | |] eqn:E; cbn [rbind] in H; try discriminate.
        rewrite (IHl _ _ _ E). exact H.
    - intros ie ss i q r H. rewrite den_block_S in H. rewrite den_block_S.
      destruct (nth_error ss i) as [s1|]; [|exact H].
      destruct (den_stmt orc f ie s1 q) as [[e1 q1]| | |] eqn:E1; cbn [rbind] in H; try discriminate.
      rewrite (IHs _ _ _ _ E1). cbn [rbind].
      destruct (den_block orc f ie ss (S i) q1) as [[e2 q2]| | |] eqn:E2; cbn [rbind] in H; try discriminate.
      rewrite (IHb _ _ _ _ _ E2). exact H.
    - intros l q r H. rewrite den_list_S in H. rewrite den_list_S.
      destruct l as [|[ie b] rr]; [exact H|].
      destruct (den_stmt orc f ie b q) as [[e1 q1]| | |] eqn:E1; cbn [rbind] in H; try discriminate.
      rewrite (IHs _ _ _ _ E1). cbn [rbind].
      destruct (den_list orc f rr q1) as [[e2 q2]| | |] eqn:E2; cbn [rbind] in H; try discriminate.
      rewrite (IHl _ _ _ E2). exact H.
    - intros ie s k q r H. rewrite den_loop_S in H. rewrite den_loop_S.
      destruct s as [n at_ ins|t at_ ins body|bs|e p fl|e b|v lim b|v lim c]; try discriminate.
      + destruct (den_decide orc e q) as [[[bb d] q1]| | |]; cbn [rbind] in *; try discriminate.
        destruct bb; [|exact H].
        destruct (den_block orc f ie b 0 q1) as [[e1 q2]| | |] eqn:E1; cbn [rbind] in H; try discriminate.
        rewrite (IHb _ _ _ _ _ E1). cbn [rbind].
        destruct (den_loop orc f ie (XWhile e b) (S k) q2) as [[e2 q3]| | |] eqn:E2; cbn [rbind] in H; try discriminate.
        rewrite (IHt _ _ _ _ _ E2). exact H.
      + destruct (den_limit orc lim q) as [[[n d] q1]| | |]; cbn [rbind] in *; try discriminate.
        destruct (Z.of_nat k <? n)%Z; [|exact H].
        destruct (den_block orc f ((v, k) :: ie) b 0 q1) as [[e1 q2]| | |] eqn:E1; cbn [rbind] in H; try discriminate.
        rewrite (IHb _ _ _ _ _ E1). cbn [rbind].
        destruct (den_loop orc f ie (XCount v lim b) (S k) q2) as [[e2 q3]| | |] eqn:E2; cbn [rbind] in H; try discriminate.
        rewrite (IHt _ _ _ _ _ E2). exact H.
  Qed.

  Lemma den_stmt_le : forall f f' ie s q r, f <= f' -> den_stmt orc f ie s q = Ok r -> den_stmt orc f' ie s q = Ok r.
  Proof. intros f f' ie s q r Hle H. induction Hle; [exact H|]. apply (proj1 (den_mono _)). exact IHHle. Qed.
  Lemma den_block_le : forall f f' ie ss i q r, f <= f' -> den_block orc f ie ss i q = Ok r -> den_block orc f' ie ss i q = Ok r.
  Proof. intros f f' ie ss i q r Hle H. induction Hle; [exact H|]. apply (proj1 (proj2 (den_mono _))). exact IHHle. Qed.
  Lemma den_list_le : forall f f' l q r, f <= f' -> den_list orc f l q = Ok r -> den_list orc f' l q = Ok r.
  Proof. intros f f' l q r Hle H. induction Hle; [exact H|]. apply (proj1 (proj2 (proj2 (den_mono _)))). exact IHHle. Qed.
  Lemma den_loop_le : forall f f' ie s k q r, f <= f' -> den_loop orc f ie s k q = Ok r -> den_loop orc f' ie s k q = Ok r.
  Proof. intros f f' ie s k q r Hle H. induction Hle; [exact H|]. apply (proj2 (proj2 (proj2 (den_mono _)))). exact IHHle. Qed.

  (* the result does not depend on the fuel, once there is enough of it *)
  Lemma den_block_det : forall f1 f2 ie ss i q r1 r2,
      den_block orc f1 ie ss i q = Ok r1 -> den_block orc f2 ie ss i q = Ok r2 -> r1 = r2.
  Proof.
    intros f1 f2 ie ss i q r1 r2 H1 H2.
    apply (den_block_le _ (Nat.max f1 f2)) in H1; [|apply Nat.le_max_l].
    apply (den_block_le _ (Nat.max f1 f2)) in H2; [|apply Nat.le_max_r].
    congruence.
  Qed.
  Lemma den_stmt_det : forall f1 f2 ie s q r1 r2,
      den_stmt orc f1 ie s q = Ok r1 -> den_stmt orc f2 ie s q = Ok r2 -> r1 = r2.
  Proof.
    intros f1 f2 ie s q r1 r2 H1 H2.
    apply (den_stmt_le _ (Nat.max f1 f2)) in H1; [|apply Nat.le_max_l].
    apply (den_stmt_le _ (Nat.max f1 f2)) in H2; [|apply Nat.le_max_r].
    congruence.
  Qed.
End Mono.
