(* C09Expr.v — "well-typed values": typing of the values the execution engine answers with, of a
   whole oracle, and the soundness of Typing.v's expression types for Expr.eval / Expr.decide /
   RefSem.read_limit: a guard of type boolean whose paths contain no array index, that does not
   order strings, evaluates to a boolean under every well-typed oracle, at every point of the run —
   or raises ZeroDivisionError, and that only if a divisor is not a non-zero literal.
   Proof file (run-time half of C09). *)
From PFDL Require Import Base Syntax Expr RefSem C09Static.
From PFDL.Check Require Import CheckModel Typing Guards.

Section ValTyping.
  Variable P : program.

  (* [vtyped x t]: the engine's value x is a value of the declared type t.
     - number / boolean / string: a Python number / bool / str;
     - struct S: a Struct whose attribute dict has, for every non-array attribute of the FIRST
       definition of S (the one Typing.v and the validator use), a value of the attribute's type
       (more keys are allowed);
     - arrays are not represented in Expr.value (the scheduler never looks into one: an index in a
       guard is a KeyError, see Expr.resolve, and the validator rejects it), so nothing is required
       of an array attribute or of a variable of array type. *)
  Inductive vtyped : value -> vtype -> Prop :=
  | vt_num : forall q, vtyped (VNum q) (TPlain TNumber)
  | vt_bool : forall b, vtyped (VBool b) (TPlain TBoolean)
  | vt_str : forall s, vtyped (VStr s) (TPlain TString)
  | vt_struct : forall fs s sd,
      find_structdef s (p_structs P) = Some sd ->
      (forall a pr, assoc a (s_attrs sd) = Some (TPlain pr) ->
                    exists y, assoc a fs = Some y /\ vtyped y (TPlain pr)) ->
      vtyped (VStruct fs) (TPlain (TStructName s))
  | vt_array : forall x pr len, vtyped x (TArray pr len).

  (* a convenient introduction rule: one obligation per attribute of the definition *)
  Lemma vt_struct_fields : forall fs s sd,
      find_structdef s (p_structs P) = Some sd ->
      Forall (fun aty => match snd aty with
                         | TPlain _ => exists y, assoc (fst aty) fs = Some y /\ vtyped y (snd aty)
                         | TArray _ _ => True
                         end) (s_attrs sd) ->
      vtyped (VStruct fs) (TPlain (TStructName s)).
  Proof.
    intros fs s sd Hs HF. eapply vt_struct; [exact Hs|].
    intros a pr Ha. rewrite Forall_forall in HF. set (ty := TPlain pr) in *.
    assert (Hin : In (a, ty) (s_attrs sd)).
    { clear -Ha. induction (s_attrs sd) as [|[k v] r IH]; cbn [assoc] in Ha; [discriminate|].
      destruct (Nat.eqb a k) eqn:E.
      - apply Nat.eqb_eq in E. inversion Ha; subst. left; reflexivity.
      - right. apply IH. exact Ha. }
    exact (HF _ Hin).
  Qed.

  (* ---- limits: every limit path of the program ---- *)
  Fixpoint stmt_limit_paths (s : stmt) {struct s} : list (name * list pelem) :=
    match s with
    | SWhile _ b => flat_map stmt_limit_paths b
    | SCount par _ lim b =>
      (match lim with LimPath v es => [(v, es)] | LimInt _ => [] end)
      ++ (if par then [] else flat_map stmt_limit_paths b)
    | SCond _ p f => flat_map stmt_limit_paths p ++ flat_map stmt_limit_paths f
    | _ => []
    end.

  Definition limit_paths : list (name * list pelem) :=
    flat_map (fun t => flat_map stmt_limit_paths (t_body t)) (p_tasks P).

  (* ---- a well-typed oracle ----
     (1) whenever a variable v is declared with type T in some task (Typing.v's table of the task:
         inputs, then outputs of services and calls in source order, first declaration wins), every
         answer for v — at every point k of the run — is a value of type T.  The oracle of the model
         is not told which task asks (Expr.oracle = call number -> variable name -> answer), hence
         "in some task": a name declared with two different struct types in two tasks needs answers
         that fit both.
     (2) whatever a loop-limit path of the program resolves to in an answer is a whole number
         (RefSem.read_limit: "limits are integers"; the model has no answer for 2.5). *)
  Definition answers_typed (orc : oracle) : Prop :=
    forall t v T k, In t (p_tasks P) -> assoc v (vars_of_task t) = Some T ->
                    exists x, orc k v = Some x /\ vtyped x T.

  Definition limits_whole (orc : oracle) : Prop :=
    forall v es k x q, In (v, es) limit_paths -> orc k v = Some x -> resolve x es = Ok (VNum q) ->
                       Qden q = 1%positive.

  Definition oracle_typed (orc : oracle) : Prop := answers_typed orc /\ limits_whole orc.

  (* ---- paths ---- *)
  Lemma resolve_typed : forall lv es x t pr',
      vtyped x t -> path_type P lv t es = Some (TPlain pr') -> path_index_free es = true ->
      exists y, resolve x es = Ok y /\ vtyped y (TPlain pr').
  Proof.
    intros lv es. induction es as [|e es IH]; intros x t pr' Hx Hp Hf.
    - cbn in Hp. inversion Hp; subst. exists x. split; [reflexivity|exact Hx].
    - cbn [path_index_free forallb] in Hf. apply andb_true_iff in Hf. destruct Hf as [He Hf].
      destruct e as [a|v|k|]; cbn in He; try discriminate.
      cbn [path_type] in Hp.
      destruct t as [[| | |s]|pr len]; try discriminate.
      destruct (find_structdef s (p_structs P)) as [sd|] eqn:Hs; [|discriminate].
      destruct (assoc a (s_attrs sd)) as [t1|] eqn:Ha; [|discriminate].
      inversion Hx as [| | |fs s0 sd0 Hs0 Hall|]; subst.
      rewrite Hs in Hs0. inversion Hs0; subst sd0.
      destruct t1 as [pr1|pr1 len1].
      + destruct (Hall _ _ Ha) as (y & Hy & Hty).
        cbn [resolve]. rewrite Hy. eapply IH; eassumption.
      + (* an array attribute: no field may follow, and the type reached is not primitive *)
        destruct es as [|e2 es2]; [cbn in Hp; discriminate|].
        cbn [path_index_free forallb] in Hf. apply andb_true_iff in Hf. destruct Hf as [He2 _].
        destruct e2; cbn in He2; discriminate.
  Qed.

  Definition val_ety (v : value) (ty : ety) : Prop :=
    match ty, v with
    | TyNum, VNum _ => True
    | TyBool, VBool _ => True
    | TyStr, VStr _ => True
    | _, _ => False
    end.

  Lemma vtyped_ety : forall y t ty, vtyped y t -> ety_of t = Some ty -> val_ety y ty.
  Proof.
    intros y t ty Hy Ht. destruct t as [[| | |s]|pr len]; cbn in Ht; try discriminate;
      inversion Ht; subst; inversion Hy; subst; exact I.
  Qed.

  Lemma lookup_expected : forall o, exists f, lookup_op (op_token o) expected_ops = Some f /\
      f = match o with
          | OLt => PyLt | OLe => PyLe | OGt => PyGt | OGe => PyGe | OEq => PyEq | ONe => PyNe
          | OAnd => PyAnd_ | OOr => PyOr_ | OAdd => PyAdd | OSub => PySub | OMul => PyMul
          | ODiv => PyTruediv
          end.
  Proof. intro o. destruct o; eexists; (split; [vm_compute; reflexivity|reflexivity]). Qed.

  Section Eval.
    Variable orc : oracle.
    Variable vars : list (name * vtype).
    Hypothesis Horc : forall v T k, assoc v vars = Some T -> exists x, orc k v = Some x /\ vtyped x T.
    Variable zd : bool.       (* true: ZeroDivisionError is a tolerated outcome *)

    Definition ev_ok (ty : ety) (r : res (value * nat)) : Prop :=
      match r with
      | Ok (v, _) => val_ety v ty
      | Exn ZeroDivisionError => zd = true
      | _ => False
      end.

    Lemma nonzero_literal_eval : forall e k,
        nonzero_literal e = true -> exists q, eval expected_ops orc e k = Ok (VNum q, k) /\ Qeq_bool q 0 = false.
    Proof.
      induction e; intros k H; cbn [nonzero_literal] in H; try discriminate.
      - exists q. split; [reflexivity|]. apply negb_true_iff. exact H.
      - cbn [eval]. apply IHe. exact H.
    Qed.

    Lemma path_sound : forall lv v es pr k,
        param_path_type P vars lv v es = Some (TPlain pr) -> path_index_free es = true ->
        exists x y, orc k v = Some x /\ resolve x es = Ok y /\ vtyped y (TPlain pr).
    Proof.
      intros lv v es pr k Hp Hf. set (t := TPlain pr) in *. unfold param_path_type, var_type in Hp.
      destruct (assoc v vars) as [T|] eqn:Hv; [|discriminate].
      destruct (Horc _ _ k Hv) as (x & Hx & Htx).
      assert (Hpt : path_type P lv T es = Some t).
      { destruct es as [|[a|w|j|] r]; try discriminate; exact Hp. }
      destruct (resolve_typed _ _ _ _ _ Htx Hpt Hf) as (y & Hy & Hty).
      exists x, y. auto.
    Qed.

    Lemma eval_sound : forall lv e ty,
        expr_type P vars lv e = Some ty ->
        expr_index_free e = true ->
        expr_no_str_order P vars lv e = true ->
        (zd = false -> expr_div_safe e = true) ->
        forall k, ev_ok ty (eval expected_ops orc e k).
    Proof.
      intros lv. induction e as [q|b|s|v es|e1 IH1|e1 IH1|o l IHl r IHr]; intros ty Ht Hf Hs Hd k.
      - cbn in Ht. inversion Ht; subst. exact I.
      - cbn in Ht. inversion Ht; subst. exact I.
      - cbn in Ht. inversion Ht; subst. exact I.
      - cbn [expr_type] in Ht. cbn [expr_index_free] in Hf.
        destruct (param_path_type P vars lv v es) as [[pr|pr len]|] eqn:Hp; try discriminate.
        destruct (path_sound _ _ _ _ k Hp Hf) as (x & y & Hx & Hy & Hty).
        cbn [eval]. rewrite Hx, Hy. cbn [rbind ev_ok]. eapply vtyped_ety; eassumption.
      - cbn [expr_type] in Ht. destruct (expr_type P vars lv e1) as [[| |]|] eqn:E1; try discriminate.
        inversion Ht; subst ty.
        specialize (IH1 TyBool eq_refl Hf Hs Hd k). cbn [eval].
        destruct (eval expected_ops orc e1 k) as [[v1 k1]| |ex|]; cbn [ev_ok rbind] in *; try contradiction.
        + destruct v1; try contradiction. cbn. exact I.
        + exact IH1.
      - cbn [expr_type] in Ht. cbn [eval]. apply IH1; assumption.
      - cbn [expr_type] in Ht.
        destruct (expr_type P vars lv l) as [ta|] eqn:El; [|discriminate].
        destruct (expr_type P vars lv r) as [tb|] eqn:Er; [|discriminate].
        cbn [expr_index_free] in Hf. apply andb_true_iff in Hf. destruct Hf as [Hfl Hfr].
        cbn [expr_no_str_order] in Hs. rewrite El in Hs.
        apply andb_true_iff in Hs. destruct Hs as [Hs Hso]. apply andb_true_iff in Hs. destruct Hs as [Hsl Hsr].
        assert (Hdl : zd = false -> expr_div_safe l = true).
        { intro Z. specialize (Hd Z). cbn [expr_div_safe] in Hd.
          apply andb_true_iff in Hd. destruct Hd as [Hd _]. apply andb_true_iff in Hd. apply Hd. }
        assert (Hdr : zd = false -> expr_div_safe r = true).
        { intro Z. specialize (Hd Z). cbn [expr_div_safe] in Hd.
          apply andb_true_iff in Hd. destruct Hd as [Hd _]. apply andb_true_iff in Hd. apply Hd. }
        assert (Hdo : zd = false -> o = ODiv -> nonzero_literal r = true).
        { intros Z Ho. specialize (Hd Z). cbn [expr_div_safe] in Hd. subst o.
          apply andb_true_iff in Hd. apply Hd. }
        specialize (IHl ta eq_refl Hfl Hsl Hdl k). cbn [eval].
        destruct (eval expected_ops orc l k) as [[va k1]| |ex|] eqn:EVl; cbn [ev_ok rbind] in *;
          try contradiction; [|exact IHl].
        specialize (IHr tb eq_refl Hfr Hsr Hdr k1).
        pose proof (fun Z Ho => nonzero_literal_eval r k1 (Hdo Z Ho)) as Hlit.
        destruct (eval expected_ops orc r k1) as [[vb k2]| |ex|] eqn:EVr; cbn [ev_ok rbind] in *;
          try contradiction; [|exact IHr].
        destruct (lookup_expected o) as (f & Hlk & Hf). rewrite Hlk. subst f.
        destruct o; destruct ta, tb; cbn in Ht; try discriminate; inversion Ht; subst ty;
          cbn in Hso; try discriminate;
          destruct va; try contradiction; destruct vb; try contradiction;
          cbn [py_apply py_cmp py_eq py_arith num_of rbind ev_ok val_ety];
          try exact I;
          try (match goal with |- context [py_eq (VBool ?x) (VBool ?y)] => destruct x, y end;
               vm_compute; exact I).
        (* division *)
        match goal with |- context [Qeq_bool ?y 0] => destruct (Qeq_bool y 0) eqn:Z0 end;
          cbn [ev_ok rbind val_ety]; [|exact I].
        destruct zd eqn:Zd; [reflexivity|].
        destruct (Hlit eq_refl eq_refl) as (q1 & Hq1 & Hz). inversion Hq1; subst. congruence.
    Qed.

    Definition dec_ok (r : res (bool * nat)) : Prop :=
      match r with
      | Ok _ => True
      | Exn ZeroDivisionError => zd = true
      | _ => False
      end.

    Theorem decide_sound : forall lv e,
        guard_ok P vars lv e = true ->
        expr_index_free e = true ->
        expr_no_str_order P vars lv e = true ->
        (zd = false -> expr_div_safe e = true) ->
        forall k, dec_ok (decide expected_ops orc e k).
    Proof.
      intros lv e Hg Hf Hs Hd k. unfold guard_ok in Hg.
      destruct (expr_type P vars lv e) as [[| |]|] eqn:Et; try discriminate.
      pose proof (eval_sound lv e TyBool Et Hf Hs Hd k) as H. unfold decide.
      destruct (eval expected_ops orc e k) as [[v k1]| |ex|]; cbn [ev_ok rbind dec_ok] in *; try contradiction.
      - destruct v; try contradiction. cbn. exact I.
      - exact H.
    Qed.

    (* a limit that reads as a whole number at every point of the run *)
    Definition lim_ok (l : limit) : Prop :=
      match l with
      | LimInt _ => True
      | LimPath v es =>
        forall k, exists x q, orc k v = Some x /\ resolve x es = Ok (VNum q) /\ Qden q = 1%positive
      end.

    Theorem limit_sound : forall lv l,
        limit_ok P vars lv l = true -> limit_index_free l = true ->
        (forall v es, l = LimPath v es ->
                      forall k x q, orc k v = Some x -> resolve x es = Ok (VNum q) -> Qden q = 1%positive) ->
        lim_ok l.
    Proof.
      intros lv l Hl Hf Hw. destruct l as [n|v es]; [exact I|].
      cbn [limit_ok] in Hl. cbn [limit_index_free] in Hf.
      destruct (param_path_type P vars lv v es) as [[[| | |s]|pr len]|] eqn:Hp; try discriminate.
      intro k. destruct (path_sound _ _ _ _ k Hp Hf) as (x & y & Hx & Hy & Hty).
      inversion Hty; subst. exists x, q. split; [exact Hx|]. split; [exact Hy|].
      eapply Hw; [reflexivity|exact Hx|exact Hy].
    Qed.
  End Eval.
End ValTyping.
