(* RefParams.v — every run of the reference semantics satisfies the parameter monitor of
   MonitorsParams.v (C15: a started notification carries the parameters written at its call site,
   in source order, with the index variables of the enclosing counting / parallel loops of the same
   task instance replaced by the iteration / instance number), for all schedules.  The induction is
   the one of RefDecide.v (the decision-following monitor with its hook).  Proof file. *)
From PFDL Require Import RefSem RunCase Monitors MonitorsSeq MonitorsFork RefBase RefC02 RefC03 RefMonitors Examples
     MonitorsDecide MonitorsParams RefDecide.
From Coq Require Import Lia.
Import ListNotations.

Theorem params_programs : forall (c : runcase) (tr : list callrec) F,
    run_ref c = Ok tr ->
    holds_check_with (gk_at (p_tasks (rc_prog c))) (orc_of (rc_vals c))
                     (chk_params (ins_at (p_tasks (rc_prog c))) (lv_at (p_tasks (rc_prog c)))) F tr = true.
Proof.
  intros c tr F H. unfold run_ref in H.
  destruct (existsb _ (rc_react c)); [discriminate|].
  destruct (unfold_program (p_tasks (rc_prog c)) 200) as [body| | |] eqn:U; try discriminate.
  cbn [rbind] in H. eapply params_with_ref; [|exact H]. eapply unfold_program_guarded. exact U.
Qed.

Theorem C15_params_programs : forall (c : runcase) (tr : list callrec), run_ref c = Ok tr -> mon_params c tr = true.
Proof. intros c tr H. exact (params_programs c tr decide_fuel H). Qed.

Theorem C15_programs : forall (c : runcase) (tr : list callrec), run_ref c = Ok tr -> mon_C15 c tr = true.
Proof. intros c tr H. unfold mon_C15. rewrite (C04_decide_programs c tr H), (C15_params_programs c tr H). reflexivity. Qed.

(* the parameter monitor is the decision-following monitor plus a test: it accepts less *)
Theorem params_implies_decide : forall c tr, mon_params c tr = true -> mon_decide c tr = true.
Proof.
  intros c tr H. unfold mon_params, mon_decide, holds_decide_with, holds_check_with in *.
  eapply dec_run_weaken; [|exact H]. reflexivity.
Qed.

(* ===================================================================== *)
(* what acceptance means                                                   *)
(* ===================================================================== *)
Section MeaningP.
  Variable GK : name -> list nat -> gk.
  Variable INS : name -> list nat -> list param.
  Variable LV : name -> list nat -> option name.
  Variable orc : oracle.
  Variable F : nat.

  (* an accepted started notification in the context of instance c: its parameters are the ones
     written at its site, with the loop variables around the site replaced by the counters kept in
     the NEW record r' of c (r' = the record after [on_start]: position = the site, counters as the
     walk left them) *)
  Theorem params_rule : forall H n H' c,
      dec_notif GK orc (chk_params INS LV) F H n = Some H' -> ds_lost H' = false ->
      n_kind n = TS \/ n_kind n = SS -> n_ctx n = Some c ->
      exists r r', assoc c (ds_recs H) = Some r /\ d_task r = st_task (n_site n) /\
                   on_start GK orc F r (st_path (n_site n)) (ds_q H) = Next r' /\
                   d_task r' = d_task r /\ d_last r' = Some (st_path (n_site n)) /\
                   list_eqb param_eqb (n_params n)
                            (subst_params (ie_of (LV (d_task r)) (d_cnt r') (st_path (n_site n)))
                                          (INS (d_task r) (st_path (n_site n)))) = true.
  Proof.
    intros H n H' c Hd Hl Hk Hc. unfold dec_notif in Hd. rewrite Hc in Hd.
    assert (Z : exists r r', assoc c (ds_recs H) = Some r /\ Nat.eqb (d_task r) (st_task (n_site n)) = true /\
                             on_start GK orc F r (st_path (n_site n)) (ds_q H) = Next r' /\
                             chk_params INS LV r' n = true).
    { destruct Hk as [Hk|Hk]; rewrite Hk in Hd; destruct (assoc c (ds_recs H)) as [r|]; try discriminate;
        destruct (Nat.eqb (d_task r) (st_task (n_site n))) eqn:Et; cbn [negb] in Hd; try discriminate;
          destruct (on_start GK orc F r (st_path (n_site n)) (ds_q H)) as [| |r'] eqn:Eo; try discriminate;
            try (inv Hd; cbn in Hl; discriminate);
            destruct (chk_params INS LV r' n) eqn:Ec; try discriminate;
              exists r, r'; repeat split; (reflexivity || assumption). }
    destruct Z as (r & r' & Er & Et & Y & Ec). exists r, r'. split; [exact Er|]. apply Nat.eqb_eq in Et. split; [exact Et|].
    split; [exact Y|].
    assert (T : d_task r' = d_task r /\ d_last r' = Some (st_path (n_site n))).
    { unfold on_start in Y. destruct (d_more r).
      - destruct (expect GK orc F r (ds_q H)) as [[[[[e cn] q'] more]|]|]; try discriminate.
        destruct (option_eqb (list_eqb Nat.eqb) e (Some (st_path (n_site n))) && Nat.eqb q' (ds_q H)); [|discriminate].
        inv Y. split; reflexivity.
      - destruct (d_last r) as [t|]; [|discriminate].
        destruct (option_eqb (list_eqb Nat.eqb) (sibling (GK (d_task r)) t) (Some (st_path (n_site n))) && is_none (d_first r)); [|discriminate].
        inv Y. split; reflexivity. }
    destruct T as (T1 & T2). split; [exact T1|]. split; [exact T2|].
    unfold chk_params in Ec. rewrite T2, T1 in Ec. exact Ec.
  Qed.

  (* the environment: the loops at the prefixes of the position, innermost first *)
  Theorem ie_of_step : forall LVt cn pre i,
      ie_of LVt cn (pre ++ [i]) =
      match LVt (pre ++ [i]) with Some v => (v, getc (pre ++ [i]) cn) :: ie_of LVt cn pre | None => ie_of LVt cn pre end.
  Proof. exact ie_of_snoc. Qed.

  Theorem ie_of_root : forall LVt cn, ie_of LVt cn [] = [].
  Proof. reflexivity. Qed.

  (* an index written with a variable is replaced by the FIRST (innermost) binding of the variable;
     an unbound one stays as written *)
  Theorem subst_index : forall ie v,
      subst_pelem ie (PIdxVar v) = match assoc v ie with Some k => PIdxLit k | None => PIdxVar v end.
  Proof. reflexivity. Qed.
End MeaningP.

(* ===================================================================== *)
(* examples                                                                *)
(* ===================================================================== *)
(*  Task productionTask (variable 20 = the struct the services work on):
      0: S1 (v20.f8[i9])                         index variable outside every loop: stays as written
      1: Loop i9 To 2 {
           0: S2 (v20.f8[i9], v21)                 two parameters, iteration number
           1: Loop i9 To 1 { 0: S3 (v20.f8[i9]) }  the same variable again: the inner loop wins
           2: t7 (v20.f8[i9]) }                    a call: the caller's iteration number in the call's
                                                   parameter, not in the callee (S8 (v20.f8[i9]) stays)
      2: Parallel Loop i9 To 2 { t7 (v20.f8[i9]) } instance number
    Task t7: S8 (v20.f8[i9])
    every service completes at once *)
Definition idx (v : name) : param := PPath 20 [PF 8; PIdxVar v].
Definition px_prog : program :=
  {| p_structs := [];
     p_tasks := [ {| t_name := 0; t_ins := []; t_outs := [];
                     t_body := [SService 1 [idx 9] [];
                                SCount false 9 (LimInt 2)
                                       [SService 2 [idx 9; PVar 21] [];
                                        SCount false 9 (LimInt 1) [SService 3 [idx 9] []];
                                        SCall {| c_name := 7; c_ins := [idx 9]; c_outs := [] |}];
                                SCount true 9 (LimInt 2) [SCall {| c_name := 7; c_ins := [idx 9]; c_outs := [] |}]] |};
                  {| t_name := 7; t_ins := []; t_outs := []; t_body := [SService 8 [idx 9] []] |} ] |}.
Definition px_case : runcase :=
  {| rc_prog := px_prog; rc_vals := [VBool true]; rc_imm := repeat true 30;
     rc_script := [AStart]; rc_react := []; rc_react_all := false; rc_mutate := 0; rc_test_ids := true |}.
Definition px_trace : list callrec := trace_of px_case.

Definition lit (k : nat) : param := PPath 20 [PF 8; PIdxLit k].
(* name, position and parameters of everything started *)
Definition started_with (tr : list callrec) : list (name * list nat * list param) :=
  flat_map (fun r => flat_map (fun e => match e with
                                        | ENotif 0 n _ => match n_kind n with
                                                          | TS | SS => [(n_name n, st_path (n_site n), n_params n)]
                                                          | _ => [] end
                                        | _ => [] end) (cr_log r)) tr.

Example px_started :
  started_with px_trace =
  [(0, [], []); (1, [0], [idx 9]);
   (2, [1; 0], [lit 0; PVar 21]); (3, [1; 1; 0], [lit 0]); (7, [1; 2], [lit 0]); (8, [0], [idx 9]);
   (2, [1; 0], [lit 1; PVar 21]); (3, [1; 1; 0], [lit 0]); (7, [1; 2], [lit 1]); (8, [0], [idx 9]);
   (7, [2; 0], [lit 0]); (8, [0], [idx 9]); (7, [2; 0], [lit 1]); (8, [0], [idx 9])].
Proof. vm_compute. reflexivity. Qed.

Example px_accepted :
  existsb (fun r => cr_final r) px_trace = true /\ mon_params px_case px_trace = true /\ mon_C15 px_case px_trace = true /\
  mon_params ex_case seq_ex_trace = true /\ mon_params dx_case dx_trace = true.
Proof. vm_compute. repeat split; reflexivity. Qed.

(* tampering: the parameters of the k-th started notification (counted from 0 over the whole
   trace, the production task's included) are changed by f *)
Fixpoint tamper_log (f : list param -> list param) (k : option nat) (l : list entry) : list entry :=
  match l with
  | [] => []
  | ENotif 0 n r :: t =>
    match n_kind n, k with
    | (TS | SS), Some O => ENotif 0 (mk (n_kind n) (n_name n) (n_site n) (n_id n) (n_ctx n) (f (n_params n))) r :: t
    | (TS | SS), Some (S k') => ENotif 0 n r :: tamper_log f (Some k') t
    | _, _ => ENotif 0 n r :: tamper_log f k t
    end
  | e :: t => e :: tamper_log f k t
  end.
Definition tamper (f : list param -> list param) (k : nat) (tr : list callrec) : list callrec :=
  match tr with
  | r :: t => with_log (tamper_log f (Some k)) r :: t
  | [] => []
  end.

(* the index is not substituted (second iteration of S2) *)
Example index_not_substituted_rejected : mon_params px_case (tamper (fun _ => [idx 9; PVar 21]) 6 px_trace) = false.
Proof. vm_compute. reflexivity. Qed.
(* a wrong iteration number (second iteration of S2 delivered with 0; the call of t7 in iteration 0 with 1) *)
Example wrong_iteration_rejected :
  mon_params px_case (tamper (fun _ => [lit 0; PVar 21]) 6 px_trace) = false /\
  mon_params px_case (tamper (fun _ => [lit 1]) 4 px_trace) = false.
Proof. vm_compute. split; reflexivity. Qed.
(* the outer loop's number where the inner loop with the same variable binds it *)
Example shadowing_rejected : mon_params px_case (tamper (fun _ => [lit 1]) 7 px_trace) = false.
Proof. vm_compute. reflexivity. Qed.
(* the caller's iteration number substituted inside the callee; the index substituted outside every loop *)
Example callee_substituted_rejected :
  mon_params px_case (tamper (fun _ => [lit 0]) 5 px_trace) = false /\ mon_params px_case (tamper (fun _ => [lit 0]) 1 px_trace) = false.
Proof. vm_compute. split; reflexivity. Qed.
(* the parameters of another site (S3's list delivered for S2) *)
Example other_site_rejected : mon_params px_case (tamper (fun _ => [lit 0]) 2 px_trace) = false.
Proof. vm_compute. reflexivity. Qed.
(* two parameters in the wrong order *)
Example order_swapped_rejected : mon_params px_case (tamper (@rev param) 2 px_trace) = false.
Proof. vm_compute. reflexivity. Qed.
(* the instance numbers of the parallel loop: the same number twice; in the wrong order *)
Example instance_number_rejected :
  mon_params px_case (tamper (fun _ => [lit 0]) 12 px_trace) = false /\
  mon_params px_case (tamper (fun _ => [lit 1]) 10 (tamper (fun _ => [lit 0]) 12 px_trace)) = false.
Proof. vm_compute. split; reflexivity. Qed.
(* an appended element (what a hostile engine did to an earlier list) *)
Example appended_rejected : mon_params px_case (tamper (fun l => l ++ [PVar 21]) 6 px_trace) = false.
Proof. vm_compute. reflexivity. Qed.
(* mon_decide does not look at parameters *)
Example decide_ignores_params : mon_decide px_case (tamper (fun _ => []) 6 px_trace) = true.
Proof. vm_compute. reflexivity. Qed.

Lemma px_guarded :
  guarded_body (gk_at (p_tasks px_prog)) (ins_at (p_tasks px_prog)) (lv_at (p_tasks px_prog))
               (match unfold_program (p_tasks px_prog) 200 with Ok b => b | _ => [] end).
Proof.
  destruct (unfold_program (p_tasks px_prog) 200) as [b| | |] eqn:E; try (vm_compute in E; discriminate).
  eapply unfold_program_guarded. exact E.
Qed.

(* the guard is needed: with the parameter lists of the sites of S2 taken in reverse order the
   reference trace is rejected *)
Example params_needs_guard_refuted :
  holds_check_with (gk_at (p_tasks px_prog)) (orc_of (rc_vals px_case))
                   (chk_params (fun tn p => rev (ins_at (p_tasks px_prog) tn p)) (lv_at (p_tasks px_prog))) decide_fuel px_trace = false.
Proof. vm_compute. reflexivity. Qed.
