(* MonitorsDecide.v — executable decision-following monitor for C04 (Conditions) and C05 (loops),
   for ALL schedules.  Definitions only (model support file); theorems: RefDecide.v.

   The monitor reads what function 0 was told and the oracle queries.  The program enters through
   [gk_at]: what stands at an index path of the SOURCE program (a leaf: service / task call; a
   Parallel with n calls; a parallel loop with its limit; a Condition / While loop with its guard;
   a counting loop with its limit).  Per task instance c it keeps the position of the statement
   started last, the iteration counters of the counting loops it is in, how many further branches
   of a Parallel / instances of a parallel loop are to be started, and the index (in the whole
   history) of the first oracle query asked in the context of c since the last notification that
   concerned c (its own task-started notification, or a started / finished notification of one of
   its statements).

   When a statement of c is started (or c is reported finished), the monitor WALKS the control
   flow of c's task from the position after the statement started last, re-evaluating every guard
   and limit on the way with [decide] / the limit reading of the reference arithmetic on the
   ORACLE's answers, numbered from the recorded index:
     (d1) a Condition continues in its Passed block iff the decision is true, else in its Failed
          block (empty: after the Condition);
     (d2) a While loop enters its body iff the guard is true, else continues after the loop; the
          guard is evaluated again each time the body has completed;
     (d3) a counting loop reads its limit N before every test (a variable limit costs one query
          each time -- this is when the reference semantics reads it) and enters iteration k iff
          k < N; so the body is started max(N,0) times when N does not change;
     a Parallel without calls and a parallel loop with N <= 0 are passed over;
   the walk stops at the first service / task call / first branch of a Parallel / first instance of
   a parallel loop it reaches, or at the end of the task body.  The started notification must be
   exactly that statement (the task-finished notification: the end of the body), and the walk must
   have consumed exactly the queries from the recorded index up to now -- every guard was evaluated
   "at that moment" in the context of c, none was skipped, none was evaluated twice.  The further
   branches of a Parallel (n - 1) / instances of a parallel loop (N - 1) follow without a walk and
   without a query of c in between.
   Guards without variables are re-evaluated like all others (no query is expected for them).
   The instances of a parallel loop are numbered in the order of their task-started notifications; the
   number is kept like an iteration counter, under the position of the loop (the walk never reads it).
   The walk has fuel; when it runs out the monitor gives up and accepts the rest of the trace.
   [chk] is a hook: an additional test of every started notification against the NEW record of its
   instance (position, counters); [mon_decide] uses none, MonitorsParams.v the parameter test. *)
From PFDL Require Export MonitorsFork.

Inductive gk :=
| GLeaf | GPar (n : nat) | GPLoop (lim : limit) | GCond (e : expr) | GWhile (e : expr) | GCount (lim : limit) | GNone.

Fixpoint gk_path (ss : list stmt) (p : list nat) {struct p} : gk :=
  match p with
  | [] => GNone
  | i :: rest =>
    match nth_error ss i with
    | None => GNone
    | Some (SService _ _ _) => match rest with [] => GLeaf | _ => GNone end
    | Some (SCall _) => match rest with [] => GLeaf | _ => GNone end
    | Some (SParallel cs) =>
      match rest with
      | [] => GPar (List.length cs)
      | [j] => if Nat.ltb j (List.length cs) then GLeaf else GNone
      | _ => GNone
      end
    | Some (SWhile e b) => match rest with [] => GWhile e | _ => gk_path b rest end
    | Some (SCount false _ lim b) => match rest with [] => GCount lim | _ => gk_path b rest end
    | Some (SCount true _ lim _) =>
      match rest with
      | [] => GPLoop lim
      | [O] => GLeaf
      | _ => GNone
      end
    | Some (SCond e ps fs) =>
      match rest with
      | [] => GCond e
      | O :: rest' => gk_path ps rest'
      | 1 :: rest' => gk_path fs rest'
      | _ => GNone
      end
    end
  end.

Definition gk_at (tasks : list task) (tn : name) (p : list nat) : gk :=
  match find_task tn tasks with
  | Some t => gk_path (t_body t) p
  | None => GNone
  end.

(* iteration counters of the counting loops, by position *)
Definition cnts := list (list nat * nat).
Fixpoint getc (k : list nat) (c : cnts) : nat :=
  match c with
  | [] => 0
  | (k', v) :: t => if list_eqb Nat.eqb k k' then v else getc k t
  end.
Definition setc (k : list nat) (v : nat) (c : cnts) : cnts := (k, v) :: c.

Section Walk.
  Variable G : list nat -> gk.
  Variable orc : oracle.

  Definition dec (e : expr) (q : nat) : option (bool * nat) :=
    match decide expected_ops orc e q with Ok r => Some r | _ => None end.

  Definition rlimit (lim : limit) (q : nat) : option (Z * nat) :=
    match lim with
    | LimInt n => Some (Z.of_nat n, q)
    | LimPath v p =>
      match orc q v with
      | Some x => match resolve x p with
                  | Ok (VNum r) => if Pos.eqb (Qden r) 1 then Some (Qnum r, S q) else None
                  | _ => None
                  end
      | None => None
      end
    end.

  (* (next statement to start, or None: end of the task body; counters; queries consumed up to;
     further branches of the Parallel / instances of the parallel loop to expect after it) *)
  Definition wres := (option (list nat) * cnts * nat * nat)%type.

  (* [walk f pre i cn q]: statement i of the block with prefix [pre] is about to be executed;
     [leave f pre cn q]: the block with prefix [pre] has been completed *)
  Fixpoint walk (f : nat) (pre : list nat) (i : nat) (cn : cnts) (q : nat) {struct f} : option wres :=
    match f with
    | O => None
    | S f' =>
      match G (pre ++ [i]) with
      | GLeaf => Some (Some (pre ++ [i]), cn, q, 0)
      | GPar n => if Nat.eqb n 0 then walk f' pre (S i) cn q else Some (Some ((pre ++ [i]) ++ [0]), cn, q, n - 1)
      | GPLoop lim =>
        match rlimit lim q with
        | Some (N, q') => if Z.ltb 0 N then Some (Some ((pre ++ [i]) ++ [0]), setc (pre ++ [i]) 0 cn, q', Z.to_nat N - 1)
                          else walk f' pre (S i) cn q'
        | None => None
        end
      | GCond e =>
        match dec e q with
        | Some (b, q') => walk f' ((pre ++ [i]) ++ [if b then 0 else 1]) 0 cn q'
        | None => None
        end
      | GWhile e =>
        match dec e q with
        | Some (true, q') => walk f' (pre ++ [i]) 0 cn q'
        | Some (false, q') => walk f' pre (S i) cn q'
        | None => None
        end
      | GCount lim =>
        match rlimit lim q with
        | Some (N, q') => if Z.ltb 0 N then walk f' (pre ++ [i]) 0 (setc (pre ++ [i]) 0 cn) q'
                          else walk f' pre (S i) cn q'
        | None => None
        end
      | GNone => leave f' pre cn q
      end
    end
  with leave (f : nat) (pre : list nat) (cn : cnts) (q : nat) {struct f} : option wres :=
    match f with
    | O => None
    | S f' =>
      match unsnoc pre with
      | None => Some (None, cn, q, 0)
      | Some (pp, x) =>
        match G pre with
        | GWhile e =>
          match dec e q with
          | Some (true, q') => walk f' pre 0 cn q'
          | Some (false, q') => walk f' pp (S x) cn q'
          | None => None
          end
        | GCount lim =>
          let k := S (getc pre cn) in
          match rlimit lim q with
          | Some (N, q') => if Z.ltb (Z.of_nat k) N then walk f' pre 0 (setc pre k cn) q'
                            else walk f' pp (S x) cn q'
          | None => None
          end
        | _ =>
          (* a branch of a Condition: [pre] = position of the Condition ++ [0 or 1] *)
          match unsnoc pp with
          | Some (pp2, x2) => walk f' pp2 (S x2) cn q
          | None => None
          end
        end
      end
    end.

  (* where the walk resumes after the statement at [p] has completed *)
  Definition resume (p : list nat) : option (list nat * nat) :=
    match unsnoc p with
    | Some (P, j) =>
      match G P with
      | GPar _ | GPLoop _ => match unsnoc P with Some (pre, i) => Some (pre, S i) | None => None end
      | _ => Some (P, S j)
      end
    | None => None
    end.
End Walk.

Record drec := {
  d_task : name;
  d_last : option (list nat);   (* position of the statement started last; None: nothing yet *)
  d_cnt : cnts;
  d_more : nat;                 (* branches of the Parallel / instances of the parallel loop still to be started *)
  d_first : option nat          (* index (in the whole history) of the first query asked in the context of the
                                   instance since the last notification concerning it *)
}.

Record dst := {
  ds_recs : list (nat * drec);
  ds_q : nat;                   (* oracle queries so far *)
  ds_lost : bool                (* the walk ran out of fuel: given up *)
}.
Definition dst0 : dst := {| ds_recs := []; ds_q := 0; ds_lost := false |}.

Definition setr (c : nat) (r : drec) (l : list (nat * drec)) : list (nat * drec) := (c, r) :: dropk c l.
Definition clear_first (r : drec) : drec :=
  {| d_task := d_task r; d_last := d_last r; d_cnt := d_cnt r; d_more := d_more r; d_first := None |}.
Definition touch_rec (c : nat) (l : list (nat * drec)) : list (nat * drec) :=
  match assoc c l with Some r => setr c (clear_first r) l | None => l end.
Definition note_query (c : nat) (q : nat) (l : list (nat * drec)) : list (nat * drec) :=
  match assoc c l with
  | Some r => match d_first r with
              | None => setr c {| d_task := d_task r; d_last := d_last r; d_cnt := d_cnt r; d_more := d_more r;
                                  d_first := Some q |} l
              | Some _ => l
              end
  | None => l
  end.

Inductive outcome := Reject | GiveUp | Next (r : drec).

Section Step.
  Variable GK : name -> list nat -> gk.
  Variable orc : oracle.
  Variable chk : drec -> notif -> bool.   (* an additional test of a started notification against the new record of its instance *)
  Variable fuel : nat.

  (* the queries of the walk are those asked in the instance's context since the last notification
     concerning it: the walk starts at the index of the first of them *)
  Definition qstart (r : drec) (q : nat) : nat := match d_first r with Some i => i | None => q end.

  (* what the walk from the record of an instance expects next; None: cannot be resumed (reject) *)
  Definition expect (r : drec) (q : nat) : option (option wres) :=
    match d_last r with
    | None => Some (walk (GK (d_task r)) orc fuel [] 0 (d_cnt r) (qstart r q))
    | Some p => match resume (GK (d_task r)) p with
                | Some (pre, i) => Some (walk (GK (d_task r)) orc fuel pre i (d_cnt r) (qstart r q))
                | None => None
                end
    end.

  (* the next branch of the Parallel / instance of the parallel loop after the one at [t] *)
  Definition sibling (G : list nat -> gk) (t : list nat) : option (list nat) :=
    match unsnoc t with
    | Some (P, j) => match G P with
                     | GPar _ => Some (P ++ [S j])
                     | GPLoop _ => Some t
                     | _ => None
                     end
    | None => None
    end.

  (* the instances of a parallel loop are numbered in the counter of the loop's position *)
  Definition sib_cnt (G : list nat -> gk) (t : list nat) (cn : cnts) : cnts :=
    match unsnoc t with
    | Some (P, _) => match G P with GPLoop _ => setc P (S (getc P cn)) cn | _ => cn end
    | None => cn
    end.

  (* a statement at [p] of the instance with record [r] is started while [q] queries have been asked *)
  Definition on_start (r : drec) (p : list nat) (q : nat) : outcome :=
    match d_more r with
    | S m =>
      (* inside the fork of a Parallel / parallel loop: the next sibling, no guard in between *)
      match d_last r with
      | Some t => if option_eqb (list_eqb Nat.eqb) (sibling (GK (d_task r)) t) (Some p) && is_none (d_first r)
                  then Next {| d_task := d_task r; d_last := Some p; d_cnt := sib_cnt (GK (d_task r)) t (d_cnt r); d_more := m; d_first := None |}
                  else Reject
      | None => Reject
      end
    | O =>
      match expect r q with
      | None => Reject
      | Some None => GiveUp
      | Some (Some (e, cn, q', more)) =>
        if option_eqb (list_eqb Nat.eqb) e (Some p) && Nat.eqb q' q
        then Next {| d_task := d_task r; d_last := Some p; d_cnt := cn; d_more := more; d_first := None |}
        else Reject
      end
    end.

  (* the instance with record [r] is reported finished *)
  Definition on_end (r : drec) (q : nat) : outcome :=
    match d_more r with
    | S _ => Reject
    | O =>
      match expect r q with
      | None => Reject
      | Some None => GiveUp
      | Some (Some (e, cn, q', more)) =>
        if option_eqb (list_eqb Nat.eqb) e None && Nat.eqb q' q then Next r else Reject
      end
    end.

  Definition new_rec (nm : name) : drec := {| d_task := nm; d_last := None; d_cnt := []; d_more := 0; d_first := None |}.
  Definition lose (S0 : dst) : dst := {| ds_recs := ds_recs S0; ds_q := ds_q S0; ds_lost := true |}.

  Definition dec_notif (S0 : dst) (n : notif) : option dst :=
    let q := ds_q S0 in
    let recs := ds_recs S0 in
    match n_kind n with
    | TS | SS =>
      let add := match n_kind n with
                 | TS => fun l => setr (n_id n) (new_rec (n_name n)) l
                 | _ => fun l => l
                 end in
      match n_ctx n with
      | None => Some {| ds_recs := add recs; ds_q := q; ds_lost := false |}
      | Some c =>
        match assoc c recs with
        | None => None
        | Some r =>
          if negb (Nat.eqb (d_task r) (st_task (n_site n))) then None
          else match on_start r (st_path (n_site n)) q with
               | Reject => None
               | GiveUp => Some (lose S0)
               | Next r' => if chk r' n then Some {| ds_recs := add (setr c r' recs); ds_q := q; ds_lost := false |} else None
               end
        end
      end
    | TF =>
      match assoc (n_id n) recs with
      | None => None
      | Some r =>
        match on_end r q with
        | Reject => None
        | GiveUp => Some (lose S0)
        | Next _ =>
          Some {| ds_recs := match n_ctx n with Some c => touch_rec c recs | None => recs end; ds_q := q; ds_lost := false |}
        end
      end
    | SF =>
      Some {| ds_recs := match n_ctx n with Some c => touch_rec c recs | None => recs end; ds_q := q; ds_lost := false |}
    end.

  Definition dec_entry (S0 : dst) (e : entry) : option dst :=
    if ds_lost S0 then Some S0 else
    match e with
    | ENotif 0 n _ => dec_notif S0 n
    | EQuery _ c => Some {| ds_recs := note_query c (ds_q S0) (ds_recs S0); ds_q := S (ds_q S0); ds_lost := false |}
    | _ => Some S0
    end.

  Fixpoint dec_log (S0 : dst) (log : list entry) : option dst :=
    match log with
    | [] => Some S0
    | e :: t => match dec_entry S0 e with Some S1 => dec_log S1 t | None => None end
    end.

  Fixpoint dec_run (S0 : dst) (tr : list callrec) : bool :=
    match tr with
    | [] => true
    | r :: t => match dec_log S0 (cr_log r) with Some S1 => dec_run S1 t | None => false end
    end.
End Step.

Definition decide_fuel : nat := 400.

Definition no_check (r : drec) (n : notif) : bool := true.
Definition holds_check_with (GK : name -> list nat -> gk) (orc : oracle) (chk : drec -> notif -> bool) (fuel : nat)
    (tr : list callrec) : bool := dec_run GK orc chk fuel dst0 tr.
Definition holds_decide_with (GK : name -> list nat -> gk) (orc : oracle) (fuel : nat) (tr : list callrec) : bool :=
  holds_check_with GK orc no_check fuel tr.

Definition mon_decide (c : runcase) (tr : list callrec) : bool :=
  holds_decide_with (gk_at (p_tasks (rc_prog c))) (orc_of (rc_vals c)) decide_fuel tr.

Definition mon_C04 (c : runcase) (tr : list callrec) : bool := mon_C04ctx c tr && mon_C02seq c tr && mon_decide c tr.
Definition mon_C05 (c : runcase) (tr : list callrec) : bool := mon_C02seq c tr && mon_decide c tr.
