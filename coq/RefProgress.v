(* RefProgress.v — "no lost wake-up": every accepted completion is consumed by the tree.
   The two "impossible" branches of RefSem.api_call (an awaited identifier that
   deliver_block does not find; a root state that is not an RCall while something is
   awaited) are unreachable from sched0.  Proof file. *)
From PFDL Require Import RefSem RefBase RefClosure RefC08.
From Coq Require Import Lia Permutation.

(* ================================================================================== *)
(* 1. well-formedness of a state tree w.r.t. the program tree                         *)
(* ================================================================================== *)

Inductive wf : xstmt -> rst -> Prop :=
| wf_done : forall s, wf s RDone
| wf_await : forall n a ins id, wf (XService n a ins) (RAwait id)
| wf_call : forall t a ins body cid i s st,
    nth_error body i = Some s -> wf s st -> wf (XCall t a ins body) (RCall cid i st)
| wf_par : forall bs sts, Forall2 wf bs sts -> wf (XParallel bs) (RPar sts)
| wf_cond : forall e p fl (b : bool) i s st,
    nth_error (if b then p else fl) i = Some s -> wf s st -> wf (XCond e p fl) (RCond b i st)
| wf_while : forall e body k i s st,
    nth_error body i = Some s -> wf s st -> wf (XWhile e body) (RLoop k i st)
| wf_count : forall v lim body k i s st,
    nth_error body i = Some s -> wf s st -> wf (XCount v lim body) (RLoop k i st)
| wf_parloop : forall v lim c sts, Forall (wf c) sts -> wf (XParLoop v lim c) (RParLoop sts).

(* waiting inside statement i of the block ss *)
Definition wf_block (ss : list xstmt) (i : nat) (st : rst) : Prop :=
  exists s, nth_error ss i = Some s /\ wf s st.

(* branches of a Parallel / instances of a parallel loop, paired with their states *)
Definition wf_list (l : list (ienv * xstmt)) (sts : list rst) : Prop :=
  Forall2 (fun p st => wf (snd p) st) l sts.

Definition wf_opt (ss : list xstmt) (r : option (nat * rst)) : Prop :=
  match r with None => True | Some (i, st) => wf_block ss i st end.

Lemma wf_list_map_intro : forall (ie : ienv) bs sts,
    Forall2 wf bs sts -> wf_list (map (fun b => (ie, b)) bs) sts.
Proof. intros ie bs sts H. induction H; cbn [map]; constructor; auto. Qed.

Lemma wf_list_map_elim : forall (ie : ienv) bs sts,
    wf_list (map (fun b => (ie, b)) bs) sts -> Forall2 wf bs sts.
Proof.
  intros ie bs. induction bs as [|b bs IH]; intros sts H; cbn [map] in H; inv H; constructor; auto.
Qed.

Lemma wf_list_const : forall c (l : list (ienv * xstmt)) sts,
    (forall p, In p l -> snd p = c) -> wf_list l sts -> Forall (wf c) sts.
Proof.
  intros c l sts Hc H. induction H as [|p st l sts Hp Hl IH]; constructor.
  - rewrite <- (Hc p) by (left; reflexivity). exact Hp.
  - apply IH. intros q Hq. apply Hc. right. exact Hq.
Qed.

Lemma insts_snd : forall ie v c n p, In p (insts ie v c n) -> snd p = c.
Proof. intros ie v c n p H. unfold insts in H. apply in_map_iff in H. destruct H as (i & <- & _). reflexivity. Qed.

Lemma wf_list_insts : forall ie v c sts,
    Forall (wf c) sts -> wf_list (insts ie v c (List.length sts)) sts.
Proof.
  intros ie v c sts H. unfold insts. generalize 0 as start.
  induction H as [|st sts Hst Hr IH]; intro start; cbn [List.length seq map]; constructor; auto.
  apply IH.
Qed.

(* ---- the start family returns well-formed states ---- *)
Section Wf.
  Variable orc : oracle.
  Variable imm : nat -> bool.

  Lemma start_wf : forall f,
      (forall ctx ie s g st g', start_stmt orc imm f ctx ie s g = Ok (st, g') -> wf s st) /\
      (forall ctx ie ss i g r g', run_block orc imm f ctx ie ss i g = Ok (r, g') -> wf_opt ss r) /\
      (forall ctx l g sts g', start_list orc imm f ctx l g = Ok (sts, g') -> wf_list l sts) /\
      (forall ctx ie s k g st g', loop_test orc imm f ctx ie s k g = Ok (st, g') -> wf s st).
  Proof.
    induction f as [|f IH]; [split; [|split; [|split]]; intros; discriminate|].
    destruct IH as (IHs & IHb & IHl & IHt).
    split; [|split; [|split]].
    - intros ctx ie s g st g' H. cbn [start_stmt] in H.
      destruct s as [n at_ ins|t at_ ins body|bs|e p fl|e b|v lim b|v lim c].
      + mstep as id g1 E1. mstep as u2 g2 E2. mstep as u3 g3 E3. mstep as k g4 E4.
        destruct (imm k).
        * mstep as u5 g5 E5. mstep as u6 g6 E6. mstep. constructor.
        * mstep. constructor.
      + mstep as id g1 E1. mstep as u2 g2 E2. mstep as r g3 E3. apply IHb in E3.
        destruct r as [[i sti]|].
        * mstep. destruct E3 as (s1 & N & W). econstructor; eassumption.
        * mstep as u4 g4 E4. mstep. constructor.
      + mstep as sts g1 E1. apply IHl in E1.
        destruct (all_done sts) eqn:D; mstep; [constructor|].
        constructor. eapply wf_list_map_elim; eassumption.
      + mstep as b g1 E1. mstep as r g2 E2. apply IHb in E2.
        destruct r as [[i sti]|]; mstep; [|constructor].
        destruct E2 as (s1 & N & W). econstructor; eassumption.
      + eapply IHt; eassumption.
      + eapply IHt; eassumption.
      + mstep as n g1 E1. mstep as sts g2 E2. apply IHl in E2.
        destruct (all_done sts) eqn:D; mstep; [constructor|].
        constructor. eapply wf_list_const; [|exact E2]. apply insts_snd.
    - intros ctx ie ss i g r g' H. cbn [run_block] in H.
      destruct (nth_error ss i) as [s1|] eqn:N; [|mstep; exact I].
      mstep as st g1 E1. apply IHs in E1.
      destruct (is_done st) eqn:D.
      + eapply IHb; eassumption.
      + mstep. exists s1. split; assumption.
    - intros ctx l g sts g' H. cbn [start_list] in H.
      destruct l as [|[ie b] r]; [mstep; constructor|].
      mstep as st g1 E1. apply IHs in E1. mstep as sts1 g2 E2. apply IHl in E2.
      mstep. constructor; assumption.
    - intros ctx ie s k g st g' H. cbn [loop_test] in H.
      destruct s as [n at_ ins|t at_ ins body|bs|e p fl|e b|v lim b|v lim c]; try discriminate.
      + mstep as bb g1 E1. destruct bb; [|mstep; constructor].
        mstep as r g2 E2. apply IHb in E2.
        destruct r as [[i sti]|]; [|eapply IHt; eassumption].
        mstep. destruct E2 as (s1 & N & W). econstructor; eassumption.
      + mstep as n g1 E1. destruct (Z.of_nat k <? n)%Z; [|mstep; constructor].
        mstep as r g2 E2. apply IHb in E2.
        destruct r as [[i sti]|]; [|eapply IHt; eassumption].
        mstep. destruct E2 as (s1 & N & W). econstructor; eassumption.
  Qed.

  (* ---- the deliver family preserves well-formedness ---- *)
  Definition wf_o (s : xstmt) (r : option rst) : Prop :=
    match r with Some st => wf s st | None => True end.
  Definition wf_oo (ss : list xstmt) (r : option (option (nat * rst))) : Prop :=
    match r with Some r' => wf_opt ss r' | None => True end.
  Definition wf_lo (l : list (ienv * xstmt)) (r : option (list rst)) : Prop :=
    match r with Some sts => wf_list l sts | None => True end.

  Lemma deliver_wf : forall f,
      (forall ctx ie s st id g r g',
          deliver orc imm f ctx ie s st id g = Ok (r, g') -> wf s st -> wf_o s r) /\
      (forall ctx ie ss i sti id g r g',
          deliver_block orc imm f ctx ie ss i sti id g = Ok (r, g') -> wf_block ss i sti -> wf_oo ss r) /\
      (forall ctx l sts id g r g',
          deliver_list orc imm f ctx l sts id g = Ok (r, g') -> wf_list l sts -> wf_lo l r).
  Proof.
    induction f as [|f IH]; [split; [|split]; intros; discriminate|].
    destruct IH as (IHd & IHb & IHl).
    split; [|split].
    - intros ctx ie s st id g r g' H Hw. cbn [deliver] in H.
      destruct s as [n at_ ins|t at_ ins body|bs|e p fl|e b|v lim b|v lim c];
        destruct st as [|id'|cid i sti|sts|bb i sti|k i sti|sts];
        try (mstep; exact I).
      + destruct (Nat.eqb id id'); [mstep as u g1 E1|]; mstep; [constructor|exact I].
      + inv Hw. mstep as r1 g1 E1. apply IHb in E1; [|eexists; split; eassumption].
        destruct r1 as [[[j st']|]|]; cbn [wf_oo wf_opt] in E1.
        * mstep. destruct E1 as (s1 & N & W). cbn [wf_o]. econstructor; eassumption.
        * mstep as u g2 E2. mstep. constructor.
        * mstep. exact I.
      + inv Hw. mstep as r1 g1 E1. apply IHl in E1; [|apply wf_list_map_intro; assumption].
        destruct r1 as [sts'|]; cbn [wf_lo] in E1; [|mstep; exact I].
        destruct (all_done sts') eqn:D; mstep; [constructor|].
        cbn [wf_o]. constructor. eapply wf_list_map_elim; eassumption.
      + inv Hw. mstep as r1 g1 E1. apply IHb in E1; [|eexists; split; eassumption].
        destruct r1 as [[[j st']|]|]; cbn [wf_oo wf_opt] in E1; mstep; try exact I; [|constructor].
        destruct E1 as (s1 & N & W). cbn [wf_o]. econstructor; eassumption.
      + inv Hw. mstep as r1 g1 E1. apply IHb in E1; [|eexists; split; eassumption].
        destruct r1 as [[[j st']|]|]; cbn [wf_oo wf_opt] in E1.
        * mstep. destruct E1 as (s1 & N & W). cbn [wf_o]. econstructor; eassumption.
        * mstep as st' g2 E2. apply (proj2 (proj2 (proj2 (start_wf f)))) in E2. mstep. exact E2.
        * mstep. exact I.
      + inv Hw. mstep as r1 g1 E1. apply IHb in E1; [|eexists; split; eassumption].
        destruct r1 as [[[j st']|]|]; cbn [wf_oo wf_opt] in E1.
        * mstep. destruct E1 as (s1 & N & W). cbn [wf_o]. econstructor; eassumption.
        * mstep as st' g2 E2. apply (proj2 (proj2 (proj2 (start_wf f)))) in E2. mstep. exact E2.
        * mstep. exact I.
      + inv Hw. mstep as r1 g1 E1. apply IHl in E1; [|apply wf_list_insts; assumption].
        destruct r1 as [sts'|]; cbn [wf_lo] in E1; [|mstep; exact I].
        destruct (all_done sts') eqn:D; mstep; [constructor|].
        cbn [wf_o]. constructor. eapply wf_list_const; [|exact E1]. apply insts_snd.
    - intros ctx ie ss i sti id g r g' H (s1 & N & W). cbn [deliver_block] in H.
      rewrite N in H.
      mstep as r1 g1 E1. apply IHd in E1; [|exact W].
      destruct r1 as [st'|]; cbn [wf_o] in E1; [|mstep; exact I].
      destruct (is_done st') eqn:D.
      + mstep as r' g2 E2. apply (proj1 (proj2 (start_wf f))) in E2. mstep. exact E2.
      + mstep. exists s1. split; assumption.
    - intros ctx l sts id g r g' H Hw. cbn [deliver_list] in H.
      destruct l as [|[ie b] br]; [mstep; exact I|].
      destruct sts as [|st sr]; [mstep; exact I|]. inv Hw.
      mstep as r1 g1 E1. apply IHd in E1; [|assumption].
      destruct r1 as [st'|]; cbn [wf_o] in E1.
      + mstep. constructor; assumption.
      + mstep as r2 g2 E2. apply IHl in E2; [|assumption].
        destruct r2 as [sr'|]; cbn [wf_lo] in E2; mstep; [|exact I].
        constructor; assumption.
  Qed.

  (* ================================================================================ *)
  (* 2. the key lemma: an identifier that occurs in a well-formed state is found       *)
  (* ================================================================================ *)

  Lemma deliver_found : forall f,
      (forall ctx ie s st id g g',
          wf s st -> In id (svc_ids st) ->
          deliver orc imm f ctx ie s st id g <> Ok (None, g')) /\
      (forall ctx ie ss i sti id g g',
          wf_block ss i sti -> In id (svc_ids sti) ->
          deliver_block orc imm f ctx ie ss i sti id g <> Ok (None, g')) /\
      (forall ctx l sts id g g',
          wf_list l sts -> In id (ids_list sts) ->
          deliver_list orc imm f ctx l sts id g <> Ok (None, g')).
  Proof.
    induction f as [|f IH]; [split; [|split]; intros; discriminate|].
    destruct IH as (IHd & IHb & IHl).
    split; [|split].
    - intros ctx ie s st id g g' Hw Hin H. cbn [deliver] in H.
      inv Hw; cbn [svc_ids] in Hin.
      + destruct Hin.
      + destruct Hin as [->|[]]. rewrite Nat.eqb_refl in H. mstep as u g1 E1. discriminate H.
      + mstep as r1 g1 E1.
        destruct r1 as [[[j st']|]|]; [discriminate H|mstep as u g2 E2; discriminate H|].
        assert (W : wf_block body i st0) by (eexists; split; eassumption).
        exact (IHb _ _ _ _ _ _ _ _ W Hin E1).
      + mstep as r1 g1 E1.
        destruct r1 as [sts'|]; [destruct (all_done sts'); discriminate H|].
        refine (IHl _ _ _ _ _ _ _ Hin E1). apply wf_list_map_intro. assumption.
      + mstep as r1 g1 E1.
        destruct r1 as [[[j st']|]|]; [discriminate H|discriminate H|].
        assert (W : wf_block (if b then p else fl) i st0) by (eexists; split; eassumption).
        exact (IHb _ _ _ _ _ _ _ _ W Hin E1).
      + mstep as r1 g1 E1.
        destruct r1 as [[[j st']|]|]; [discriminate H|mstep as st' g2 E2; discriminate H|].
        assert (W : wf_block body i st0) by (eexists; split; eassumption).
        exact (IHb _ _ _ _ _ _ _ _ W Hin E1).
      + mstep as r1 g1 E1.
        destruct r1 as [[[j st']|]|]; [discriminate H|mstep as st' g2 E2; discriminate H|].
        assert (W : wf_block body i st0) by (eexists; split; eassumption).
        exact (IHb _ _ _ _ _ _ _ _ W Hin E1).
      + mstep as r1 g1 E1.
        destruct r1 as [sts'|]; [destruct (all_done sts'); discriminate H|].
        refine (IHl _ _ _ _ _ _ _ Hin E1). apply wf_list_insts. assumption.
    - intros ctx ie ss i sti id g g' (s1 & N & W) Hin H. cbn [deliver_block] in H.
      rewrite N in H. mstep as r1 g1 E1.
      destruct r1 as [st'|]; [|exact (IHd _ _ _ _ _ _ _ W Hin E1)].
      destruct (is_done st'); [mstep as r' g2 E2|]; discriminate H.
    - intros ctx l sts id g g' Hw Hin H. cbn [deliver_list] in H.
      inv Hw; [destruct Hin|].
      destruct x as [ie b]. cbn [snd] in *.
      mstep as r1 g1 E1.
      destruct r1 as [st'|]; [discriminate H|].
      mstep as r2 g2 E2.
      destruct r2 as [sr'|]; [discriminate H|].
      rewrite ids_list_cons in Hin. apply in_app_or in Hin. destruct Hin as [Hin|Hin].
      + exact (IHd _ _ _ _ _ _ _ H0 Hin E1).
      + exact (IHl _ _ _ _ _ _ H1 Hin E2).
  Qed.

  (* the converse needs no well-formedness: an identifier that does not occur in the
     state is not found, and nothing changes *)
  Lemma deliver_absent : forall f,
      (forall ctx ie s st id g r g',
          deliver orc imm f ctx ie s st id g = Ok (r, g') -> ~ In id (svc_ids st) -> r = None /\ g' = g) /\
      (forall ctx ie ss i sti id g r g',
          deliver_block orc imm f ctx ie ss i sti id g = Ok (r, g') -> ~ In id (svc_ids sti) -> r = None /\ g' = g) /\
      (forall ctx l sts id g r g',
          deliver_list orc imm f ctx l sts id g = Ok (r, g') -> ~ In id (ids_list sts) -> r = None /\ g' = g).
  Proof.
    induction f as [|f IH]; [split; [|split]; intros; discriminate|].
    destruct IH as (IHd & IHb & IHl).
    split; [|split].
    - intros ctx ie s st id g r g' H Hn. cbn [deliver] in H.
      destruct s as [n at_ ins|t at_ ins body|bs|e p fl|e b|v lim b|v lim c];
        destruct st as [|id'|cid i sti|sts|bb i sti|k i sti|sts];
        try (mstep; split; reflexivity); cbn [svc_ids] in Hn.
      + destruct (Nat.eqb id id') eqn:E; [|mstep; split; reflexivity].
        apply Nat.eqb_eq in E. exfalso. apply Hn. left. congruence.
      + mstep as r1 g1 E1. destruct (IHb _ _ _ _ _ _ _ _ _ E1 Hn) as [-> ->]. mstep. split; reflexivity.
      + mstep as r1 g1 E1. destruct (IHl _ _ _ _ _ _ _ E1 Hn) as [-> ->]. mstep. split; reflexivity.
      + mstep as r1 g1 E1. destruct (IHb _ _ _ _ _ _ _ _ _ E1 Hn) as [-> ->]. mstep. split; reflexivity.
      + mstep as r1 g1 E1. destruct (IHb _ _ _ _ _ _ _ _ _ E1 Hn) as [-> ->]. mstep. split; reflexivity.
      + mstep as r1 g1 E1. destruct (IHb _ _ _ _ _ _ _ _ _ E1 Hn) as [-> ->]. mstep. split; reflexivity.
      + mstep as r1 g1 E1. destruct (IHl _ _ _ _ _ _ _ E1 Hn) as [-> ->]. mstep. split; reflexivity.
    - intros ctx ie ss i sti id g r g' H Hn. cbn [deliver_block] in H.
      destruct (nth_error ss i) as [s1|]; [|mstep; split; reflexivity].
      mstep as r1 g1 E1. destruct (IHd _ _ _ _ _ _ _ _ E1 Hn) as [-> ->]. mstep. split; reflexivity.
    - intros ctx l sts id g r g' H Hn. cbn [deliver_list] in H.
      destruct l as [|[ie b] br]; [mstep; split; reflexivity|].
      destruct sts as [|st sr]; [mstep; split; reflexivity|].
      rewrite ids_list_cons in Hn.
      mstep as r1 g1 E1.
      destruct (IHd _ _ _ _ _ _ _ _ E1) as [-> ->]; [intro Hi; apply Hn, in_or_app; left; exact Hi|].
      mstep as r2 g2 E2.
      destruct (IHl _ _ _ _ _ _ _ E2) as [-> ->]; [intro Hi; apply Hn, in_or_app; right; exact Hi|].
      mstep. split; reflexivity.
  Qed.

  (* found  <->  occurs, for well-formed states *)
  Corollary deliver_block_found_iff : forall f ctx ie ss i sti id g r g',
      wf_block ss i sti ->
      deliver_block orc imm f ctx ie ss i sti id g = Ok (r, g') ->
      (r = None <-> ~ In id (svc_ids sti)).
  Proof.
    intros f ctx ie ss i sti id g r g' W H. split.
    - intros -> Hin. exact (proj1 (proj2 (deliver_found f)) _ _ _ _ _ _ _ _ W Hin H).
    - intro Hn. exact (proj1 (proj1 (proj2 (deliver_absent f)) _ _ _ _ _ _ _ _ _ H Hn)).
  Qed.

  (* ================================================================================ *)
  (* 3. list-level refinement of DEff.d_aw                                            *)
  (* ================================================================================ *)

  (* delivering [id] into a state with identifiers [old] leaves identifiers [ids']:
     the scheduler's awaited list grows by some [new], and
     id :: ids'  is a permutation of  old ++ new *)
  Definition PEff (g g' : G) (id : nat) (old ids' : list nat) : Prop :=
    g_sid g <= g_sid g' /\
    (Forall (fun x => x < g_sid g) (g_awaited g) ->
     exists new, g_awaited g' = g_awaited g ++ new
                 /\ Forall (fun x => g_sid g <= x < g_sid g') new
                 /\ Permutation (id :: ids') (old ++ new)).

  Lemma PEff_then_Eff : forall g g1 g2 id old ids1 ids2,
      PEff g g1 id old ids1 -> Eff g1 g2 ids2 -> PEff g g2 id old (ids1 ++ ids2).
  Proof.
    intros g g1 g2 id old ids1 ids2 [S1 P1] E. destruct E as [_ _ _ E4 _ E6 _ _ _].
    split; [lia|]. intros Hlt. destruct (P1 Hlt) as (new & Ha & Hr & Hp).
    assert (Hlt1 : Forall (fun x => x < g_sid g1) (g_awaited g1)).
    { rewrite Ha. apply Forall_app. split.
      - eapply Forall_lt_le; eauto.
      - eapply Forall_impl; [|exact Hr]. cbn; intros; lia. }
    destruct (E6 Hlt1) as [Hb Hs]. exists (new ++ ids2). split; [|split].
    - rewrite Hb, Ha, app_assoc. reflexivity.
    - apply Forall_app. split; (eapply Forall_impl; [|eassumption]); cbn; intros; lia.
    - rewrite app_assoc. change (id :: ids1 ++ ids2) with ((id :: ids1) ++ ids2).
      apply Permutation_app_tail. exact Hp.
  Qed.

  Lemma PEff_then_nil : forall g g1 g2 id old ids1,
      PEff g g1 id old ids1 -> Eff g1 g2 [] -> PEff g g2 id old ids1.
  Proof. intros. rewrite <- (app_nil_r ids1). eapply PEff_then_Eff; eassumption. Qed.

  Lemma PEff_frame_l : forall g g' id old ids' k,
      PEff g g' id old ids' -> PEff g g' id (k ++ old) (k ++ ids').
  Proof.
    intros g g' id old ids' k [S1 P1]. split; [exact S1|]. intro Hlt.
    destruct (P1 Hlt) as (new & Ha & Hr & Hp). exists new. split; [exact Ha|]. split; [exact Hr|].
    rewrite <- app_assoc. eapply Permutation_trans; [apply Permutation_middle|].
    apply Permutation_app_head. exact Hp.
  Qed.

  Lemma PEff_frame_r : forall g g' id old ids' k,
      PEff g g' id old ids' -> PEff g g' id (old ++ k) (ids' ++ k).
  Proof.
    intros g g' id old ids' k [S1 P1]. split; [exact S1|]. intro Hlt.
    destruct (P1 Hlt) as (new & Ha & Hr & Hp). exists new. split; [exact Ha|]. split; [exact Hr|].
    change (id :: ids' ++ k) with ((id :: ids') ++ k).
    eapply Permutation_trans; [apply Permutation_app_tail; exact Hp|].
    rewrite <- !app_assoc. apply Permutation_app_head. apply Permutation_app_comm.
  Qed.

  Definition pres {A} (ids : A -> list nat) (g : G) (id : nat) (old : list nat) (r : option A) (g' : G) : Prop :=
    match r with
    | None => g' = g
    | Some a => PEff g g' id old (ids a)
    end.

  Lemma deliver_perm : forall f,
      (forall ctx ie s st id g r g',
          deliver orc imm f ctx ie s st id g = Ok (r, g') ->
          pres svc_ids g id (svc_ids st) r g') /\
      (forall ctx ie ss i sti id g r g',
          deliver_block orc imm f ctx ie ss i sti id g = Ok (r, g') ->
          pres ids_opt g id (svc_ids sti) r g') /\
      (forall ctx l sts id g r g',
          deliver_list orc imm f ctx l sts id g = Ok (r, g') ->
          pres ids_list g id (ids_list sts) r g').
  Proof.
    induction f as [|f IH]; [split; [|split]; intros; discriminate|].
    destruct IH as (IHd & IHb & IHl).
    split; [|split].
    - intros ctx ie s st id g r g' H. cbn [deliver] in H.
      destruct s as [n at_ ins|t at_ ins body|bs|e p fl|e b|v lim b|v lim c];
        destruct st as [|id'|cid i sti|sts|bb i sti|k i sti|sts];
        try (mstep; reflexivity).
      + destruct (Nat.eqb id id') eqn:Eq; [|mstep; reflexivity].
        apply Nat.eqb_eq in Eq. subst id'.
        mstep as u g1 E1. apply emit_gen_facts in E1.
        destruct E1 as (H1 & H2 & H3 & H4 & H5 & H6 & _).
        mstep. cbn [pres svc_ids]. split; [lia|]. intros _. exists [].
        rewrite app_nil_r. split; [exact H6|]. split; [constructor|]. cbn. apply Permutation_refl.
      + mstep as r1 g1 E1. apply IHb in E1.
        destruct r1 as [[[j st']|]|]; cbn [pres] in E1.
        * mstep. cbn [pres svc_ids ids_opt] in *. exact E1.
        * mstep as u g2 E2. eapply emit_task_eff in E2; [|right; reflexivity|discriminate].
          mstep. cbn [pres svc_ids ids_opt] in *. eapply PEff_then_nil; eassumption.
        * mstep. cbn [pres]. exact E1.
      + mstep as r1 g1 E1. apply IHl in E1.
        destruct r1 as [sts'|]; cbn [pres] in E1.
        * destruct (all_done sts') eqn:D; mstep; cbn [pres svc_ids].
          -- rewrite (all_done_ids _ D) in E1. exact E1.
          -- exact E1.
        * mstep. exact E1.
      + mstep as r1 g1 E1. apply IHb in E1.
        destruct r1 as [[[j st']|]|]; cbn [pres] in E1; mstep; cbn [pres svc_ids ids_opt] in *; exact E1.
      + mstep as r1 g1 E1. apply IHb in E1.
        destruct r1 as [[[j st']|]|]; cbn [pres] in E1.
        * mstep. cbn [pres svc_ids ids_opt] in *. exact E1.
        * mstep as st' g2 E2. apply (proj2 (proj2 (proj2 (start_eff orc imm f)))) in E2.
          mstep. cbn [pres ids_opt svc_ids] in *.
          change (svc_ids st') with ([] ++ svc_ids st').
          eapply PEff_then_Eff; eassumption.
        * mstep. exact E1.
      + mstep as r1 g1 E1. apply IHb in E1.
        destruct r1 as [[[j st']|]|]; cbn [pres] in E1.
        * mstep. cbn [pres svc_ids ids_opt] in *. exact E1.
        * mstep as st' g2 E2. apply (proj2 (proj2 (proj2 (start_eff orc imm f)))) in E2.
          mstep. cbn [pres ids_opt svc_ids] in *.
          change (svc_ids st') with ([] ++ svc_ids st').
          eapply PEff_then_Eff; eassumption.
        * mstep. exact E1.
      + mstep as r1 g1 E1. apply IHl in E1.
        destruct r1 as [sts'|]; cbn [pres] in E1.
        * destruct (all_done sts') eqn:D; mstep; cbn [pres svc_ids].
          -- rewrite (all_done_ids _ D) in E1. exact E1.
          -- exact E1.
        * mstep. exact E1.
    - intros ctx ie ss i sti id g r g' H. cbn [deliver_block] in H.
      destruct (nth_error ss i) as [s1|]; [|mstep; reflexivity].
      mstep as r1 g1 E1. apply IHd in E1.
      destruct r1 as [st'|]; cbn [pres] in E1; [|mstep; exact E1].
      destruct (is_done st') eqn:D.
      + mstep as r' g2 E2. apply (proj1 (proj2 (start_eff orc imm f))) in E2.
        mstep. cbn [pres]. rewrite (is_done_ids _ D) in E1.
        change (ids_opt r') with ([] ++ ids_opt r').
        eapply PEff_then_Eff; eassumption.
      + mstep. cbn [pres ids_opt]. exact E1.
    - intros ctx l sts id g r g' H. cbn [deliver_list] in H.
      destruct l as [|[ie b] br]; [mstep; reflexivity|].
      destruct sts as [|st sr]; [mstep; reflexivity|].
      mstep as r1 g1 E1. apply IHd in E1.
      destruct r1 as [st'|]; cbn [pres] in E1.
      + mstep. cbn [pres]. rewrite !ids_list_cons. apply PEff_frame_r. exact E1.
      + subst g1. mstep as r2 g2 E2. apply IHl in E2.
        destruct r2 as [sr'|]; cbn [pres] in E2; mstep; cbn [pres].
        * rewrite !ids_list_cons. apply PEff_frame_l. exact E2.
        * exact E2.
  Qed.
End Wf.

(* ================================================================================== *)
(* 4. the API layer                                                                   *)
(* ================================================================================== *)

Lemma remove_first_perm : forall id (l l' : list nat),
    remove_first (Nat.eqb id) l = Some l' -> Permutation l (id :: l').
Proof.
  intros id. induction l as [|y l IH]; intros l' H; cbn in H; [discriminate|].
  destruct (Nat.eqb id y) eqn:E.
  - apply Nat.eqb_eq in E. subst y. inv H. apply Permutation_refl.
  - destruct (remove_first (Nat.eqb id) l) as [t|]; [|discriminate]. inv H.
    eapply Permutation_trans; [apply perm_skip; apply IH; reflexivity|]. apply perm_swap.
Qed.

Lemma remove_first_mem : forall id (l : list nat),
    mem id l = true -> exists l', remove_first (Nat.eqb id) l = Some l'.
Proof.
  intros id. induction l as [|y l IH]; intro H; cbn in H; [discriminate|]. cbn.
  destruct (Nat.eqb id y); [eexists; reflexivity|].
  cbn in H. destruct (IH H) as (t & ->). eexists; reflexivity.
Qed.

Lemma remove_first_Forall' : forall (P : nat -> Prop) (p : nat -> bool) l l',
    remove_first p l = Some l' -> Forall P l -> Forall P l'.
Proof.
  induction l as [|x l IH]; intros l' H HF; cbn in H; [discriminate|].
  inversion HF as [|? ? Hx Hr]; subst.
  destruct (p x).
  - inv H. exact Hr.
  - destruct (remove_first p l) as [t|]; [|discriminate]. inv H. constructor; [exact Hx|]. apply IH; auto.
Qed.

Section Api.
  Variable orc : oracle.
  Variable imm : nat -> bool.
  Variable body : list xstmt.

  (* the invariant between two API calls: the awaited list is a permutation of the
     identifiers in the tree, and the tree is well-formed w.r.t. the production task *)
  Definition PInv (s : sched) : Prop :=
    Forall (fun x => x < g_sid (sc_g s)) (g_awaited (sc_g s)) /\
    match sc_root s with
    | None => g_awaited (sc_g s) = []
    | Some RDone => g_awaited (sc_g s) = []
    | Some (RCall cid i st) => Permutation (g_awaited (sc_g s)) (svc_ids st) /\ wf_block body i st
    | Some _ => False
    end.

  Lemma PInv_frame : forall s g0,
      g_sid g0 = g_sid (sc_g s) -> g_awaited g0 = g_awaited (sc_g s) ->
      PInv s -> PInv {| sc_g := g0; sc_root := sc_root s |}.
  Proof. unfold PInv. intros s g0 E1 E2 H. cbn [sc_g sc_root]. rewrite E1, E2. exact H. Qed.

  Lemma PInv_sched0 : PInv (sched0).
  Proof. split; [constructor|reflexivity]. Qed.

  Lemma api_pinv : forall f s c b s',
      PInv s -> api_call orc imm f body s c = Ok (b, s') -> PInv s'.
  Proof.
    intros f s c b s' HI H.
    destruct c as [|id| |k l|o|o]; cbn [api_call] in H.
    - (* start *)
      destruct (sc_root s) as [r0|] eqn:Hroot.
      + inv H. rewrite <- Hroot. apply PInv_frame; auto.
      + match type of H with match ?X with _ => _ end = _ => destruct X as [[st g']| | |] eqn:E end;
          try discriminate. inv H.
        destruct HI as [HF HR]. rewrite Hroot in HR.
        mstep as u1 g1 E1. unfold set_running in E1. inv E1.
        set (g0 := clear_log (sc_g s) <| g_running := true |>) in *.
        mstep as id g2 E2. unfold fresh_t in E2. inv E2.
        mstep as u3 g3 E3. apply emit_gen_facts in E3.
        destruct E3 as (H1 & H2 & H3 & H4 & H5 & H6 & _).
        assert (Aw3 : g_awaited g3 = []) by (rewrite H6; exact HR).
        mstep as r g4 E4.
        pose proof (proj1 (proj2 (start_eff orc imm f)) _ _ _ _ _ _ _ E4) as EF.
        pose proof (proj1 (proj2 (start_wf orc imm f)) _ _ _ _ _ _ _ E4) as WF.
        destruct EF as [_ _ _ F4 _ F6 _ _ _].
        assert (Hlt3 : Forall (fun x => x < g_sid g3) (g_awaited g3)) by (rewrite Aw3; constructor).
        destruct (F6 Hlt3) as [B1 B2]. rewrite Aw3 in B1. cbn [app] in B1.
        destruct r as [[i sti]|].
        * mstep. cbn [ids_opt wf_opt] in *. split; cbn [sc_g sc_root].
          -- rewrite B1. eapply Forall_impl; [|exact B2]. cbn; intros; lia.
          -- split; [rewrite B1; apply Permutation_refl|exact WF].
        * mstep as u5 g5 E5. unfold finish_root in E5. mstep as u6 g6 E6.
          apply emit_gen_facts in E6. destruct E6 as (K1 & K2 & K3 & K4 & K5 & K6 & _).
          unfold set_running in E5. inv E5. mstep. cbn [ids_opt] in B1.
          split; cbn [sc_g sc_root].
          -- change (g_awaited (g6 <| g_running := false |>)) with (g_awaited g6).
             rewrite K6, B1. constructor.
          -- change (g_awaited (g6 <| g_running := false |>)) with (g_awaited g6).
             rewrite K6, B1. reflexivity.
    - (* completion *)
      change (g_awaited (clear_log (sc_g s))) with (g_awaited (sc_g s)) in H.
      destruct (mem id (g_awaited (sc_g s))) eqn:Hm.
      + destruct (sc_root s) as [[|id'|cid i sti|sts|bb i sti|k i sti|sts]|] eqn:Hroot; try discriminate.
        match type of H with match ?X with _ => _ end = _ => destruct X as [[st g']| | |] eqn:E end;
          try discriminate. inv H.
        destruct HI as [HF HR]. rewrite Hroot in HR. destruct HR as [HP HW].
        mstep as u1 g1 E1. unfold unawait in E1.
        change (g_awaited (clear_log (sc_g s))) with (g_awaited (sc_g s)) in E1.
        destruct (remove_first (Nat.eqb id) (g_awaited (sc_g s))) as [aw1|] eqn:R; [|discriminate].
        unfold set_awaited in E1. inv E1.
        pose proof (remove_first_perm _ _ _ R) as P1.
        pose proof (remove_first_Forall' _ _ _ _ R HF) as FA1.
        set (g1 := clear_log (sc_g s) <| g_awaited := aw1 |>) in *.
        mstep as r g2 E2.
        pose proof (proj1 (proj2 (deliver_perm orc imm f)) _ _ _ _ _ _ _ _ _ E2) as DP.
        pose proof (proj1 (proj2 (deliver_wf orc imm f)) _ _ _ _ _ _ _ _ _ E2 HW) as DW.
        destruct r as [r|]; [|discriminate].
        cbn [pres wf_oo] in DP, DW. destruct DP as [S1 DP].
        destruct (DP FA1) as (new & B1 & B2 & B3).
        change (g_awaited g1) with aw1 in B1.
        assert (PP : Permutation (aw1 ++ new) (ids_opt r)).
        { apply Permutation_sym. apply (Permutation_cons_inv (a := id)).
          eapply Permutation_trans; [exact B3|].
          change (id :: aw1 ++ new) with ((id :: aw1) ++ new). apply Permutation_app_tail.
          eapply Permutation_trans; [apply Permutation_sym; exact HP|exact P1]. }
        assert (FA2 : Forall (fun x => x < g_sid g2) (g_awaited g2)).
        { rewrite B1. apply Forall_app. split.
          - eapply Forall_lt_le; [exact S1|exact FA1].
          - eapply Forall_impl; [|exact B2]. cbn; intros; lia. }
        destruct r as [[j st']|].
        * mstep. cbn [ids_opt wf_opt] in *. split; cbn [sc_g sc_root]; [exact FA2|].
          split; [rewrite B1; exact PP|exact DW].
        * mstep as u5 g5 E5. unfold finish_root in E5. mstep as u6 g6 E6.
          apply emit_gen_facts in E6. destruct E6 as (K1 & K2 & K3 & K4 & K5 & K6 & _).
          unfold set_running in E5. inv E5. mstep. cbn [ids_opt] in PP.
          apply Permutation_sym, Permutation_nil in PP.
          split; cbn [sc_g sc_root];
            change (g_awaited (g6 <| g_running := false |>)) with (g_awaited g6);
            rewrite K6, B1, PP; [constructor|reflexivity].
      + inv H. apply PInv_frame; auto.
    - inv H. apply PInv_frame; auto.
    - destruct (existsb _ (g_ls (clear_log (sc_g s)))); inv H; apply PInv_frame; auto.
    - inv H. apply PInv_frame; auto.
    - destruct (remove_first (Nat.eqb o) (g_obs (clear_log (sc_g s)))); [|discriminate]. inv H.
      apply PInv_frame; auto.
  Qed.

  (* ---- reachable scheduler states (fuel may differ from call to call) ---- *)
  Inductive reach : sched -> Prop :=
  | reach_init : reach sched0
  | reach_step : forall f s c b s',
      reach s -> api_call orc imm f body s c = Ok (b, s') -> reach s'.

  Lemma reach_pinv : forall s, reach s -> PInv s.
  Proof. induction 1; [apply PInv_sched0|eapply api_pinv; eassumption]. Qed.

  Lemma reach_awinv : forall s, reach s -> AwInv (sc_g s).
  Proof.
    induction 1; [apply AwInv_sched0|].
    exact (proj1 (api_aw orc imm body _ _ _ _ _ IHreach H0)).
  Qed.

  (* the shape of a reachable state, as a disjunction *)
  Theorem reach_shape : forall s, reach s ->
      (exists cid i sti, sc_root s = Some (RCall cid i sti)
                         /\ Permutation (g_awaited (sc_g s)) (svc_ids sti)
                         /\ NoDup (svc_ids sti)
                         /\ wf_block body i sti)
      \/ (sc_root s = Some RDone /\ g_awaited (sc_g s) = [])
      \/ (sc_root s = None /\ g_awaited (sc_g s) = []).
  Proof.
    intros s Hr. pose proof (reach_pinv _ Hr) as [_ HR]. pose proof (reach_awinv _ Hr) as [_ ND].
    destruct (sc_root s) as [[|id'|cid i sti|sts|bb i sti|k i sti|sts]|]; try contradiction; auto.
    destruct HR as [HP HW]. left. exists cid, i, sti. repeat split; auto.
    eapply Permutation_NoDup; eassumption.
  Qed.

  (* ---- the theorem ---- *)
  Theorem accepted_completion_is_delivered : forall s id,
      reach s -> mem id (g_awaited (sc_g s)) = true ->
      exists cid i sti,
        sc_root s = Some (RCall cid i sti)
        /\ In id (svc_ids sti)
        /\ wf_block body i sti
        /\ forall f g g', deliver_block orc imm f cid [] body i sti id g <> Ok (None, g').
  Proof.
    intros s id Hr Hm. apply (proj1 (mem_In imm id _)) in Hm.
    destruct (reach_shape _ Hr) as [(cid & i & sti & E & HP & _ & HW)|[[_ E]|[_ E]]];
      try (rewrite E in Hm; destruct Hm).
    exists cid, i, sti.
    assert (Hin : In id (svc_ids sti)) by (eapply Permutation_in; eassumption).
    split; [exact E|]. split; [exact Hin|]. split; [exact HW|].
    intros f g g'. exact (proj1 (proj2 (deliver_found orc imm f)) _ _ _ _ _ _ _ _ HW Hin).
  Qed.

  (* consequence for api_call itself: on a reachable state, an awaited completion fails
     (Fuel / Exn / Unsupported) only if deliver_block itself fails in exactly that way:
     neither "impossible" branch, nor the ValueError of unawait, is ever taken *)
  Theorem finish_failure_is_deep : forall f s id,
      reach s -> mem id (g_awaited (sc_g s)) = true ->
      exists cid i sti aw1,
        sc_root s = Some (RCall cid i sti)
        /\ remove_first (Nat.eqb id) (g_awaited (sc_g s)) = Some aw1
        /\ let g1 := clear_log (sc_g s) <| g_awaited := aw1 |> in
           match deliver_block orc imm f cid [] body i sti id g1 with
           | Ok (r, g2) => r <> None /\ exists s', api_call orc imm f body s (AFinish id) = Ok (true, s')
           | Fuel => api_call orc imm f body s (AFinish id) = Fuel
           | Exn k => api_call orc imm f body s (AFinish id) = Exn k
           | Unsupported => api_call orc imm f body s (AFinish id) = Unsupported
           end.
  Proof.
    intros f s id Hr Hm.
    destruct (accepted_completion_is_delivered _ _ Hr Hm) as (cid & i & sti & E & Hin & HW & HD).
    destruct (remove_first_mem _ _ Hm) as (aw1 & R).
    exists cid, i, sti, aw1. split; [exact E|]. split; [exact R|]. intro g1.
    cbn [api_call]. change (g_awaited (clear_log (sc_g s))) with (g_awaited (sc_g s)).
    rewrite Hm, E. unfold bind, unawait, set_awaited. cbn beta.
    change (g_awaited (clear_log (sc_g s))) with (g_awaited (sc_g s)). rewrite R. fold g1.
    destruct (deliver_block orc imm f cid [] body i sti id g1) as [[r g2]| | |] eqn:DB; try reflexivity.
    destruct r as [[[j st']|]|].
    - split; [discriminate|]. eexists. reflexivity.
    - split; [discriminate|]. unfold finish_root, bind, emit_gen, log_entries, set_running, ret.
      cbn beta. eexists. reflexivity.
    - exfalso. exact (HD _ _ _ DB).
  Qed.

  Corollary finish_unsupported_is_deep : forall f s id,
      reach s -> mem id (g_awaited (sc_g s)) = true ->
      api_call orc imm f body s (AFinish id) = Unsupported ->
      exists cid i sti g1,
        sc_root s = Some (RCall cid i sti)
        /\ deliver_block orc imm f cid [] body i sti id g1 = Unsupported.
  Proof.
    intros f s id Hr Hm HU.
    destruct (finish_failure_is_deep f _ _ Hr Hm) as (cid & i & sti & aw1 & E & R & HD).
    exists cid, i, sti. eexists. split; [exact E|].
    cbv zeta in HD.
    destruct (deliver_block orc imm f cid [] body i sti id _) as [[r g2]| | |] eqn:DB in HD.
    - destruct HD as [_ (s' & HS)]. rewrite HS in HU. discriminate.
    - rewrite HD in HU. discriminate.
    - rewrite HD in HU. discriminate.
    - exact DB.
  Qed.

  (* ---- consumed exactly: the identifier leaves the tree, nothing else does ---- *)
  Definition ids_root (r : option rst) : list nat :=
    match r with Some st => svc_ids st | None => [] end.

  Lemma pinv_in : forall s x, PInv s -> (In x (ids_root (sc_root s)) <-> In x (g_awaited (sc_g s))).
  Proof.
    intros s x [_ HR]. unfold ids_root.
    destruct (sc_root s) as [[|id'|cid i sti|sts|bb i sti|k i sti|sts]|]; try contradiction;
      try (rewrite HR; cbn; tauto).
    destruct HR as [HP _]. cbn [svc_ids]. split; intro H.
    - eapply Permutation_in; [apply Permutation_sym; exact HP|exact H].
    - eapply Permutation_in; [exact HP|exact H].
  Qed.

  Lemma finish_awaited : forall f s id s',
      Forall (fun x => x < g_sid (sc_g s)) (g_awaited (sc_g s)) ->
      api_call orc imm f body s (AFinish id) = Ok (true, s') ->
      exists aw1 new,
        remove_first (Nat.eqb id) (g_awaited (sc_g s)) = Some aw1
        /\ g_awaited (sc_g s') = aw1 ++ new
        /\ Forall (fun x => g_sid (sc_g s) <= x) new.
  Proof.
    intros f s id s' HF H. cbn [api_call] in H.
    change (g_awaited (clear_log (sc_g s))) with (g_awaited (sc_g s)) in H.
    destruct (mem id (g_awaited (sc_g s))) eqn:Hm; [|discriminate].
    destruct (sc_root s) as [[|id'|cid i sti|sts|bb i sti|k i sti|sts]|] eqn:Hroot; try discriminate.
    match type of H with match ?X with _ => _ end = _ => destruct X as [[st g']| | |] eqn:E end;
      try discriminate. inv H.
    mstep as u1 g1 E1. unfold unawait in E1.
    change (g_awaited (clear_log (sc_g s))) with (g_awaited (sc_g s)) in E1.
    destruct (remove_first (Nat.eqb id) (g_awaited (sc_g s))) as [aw1|] eqn:R; [|discriminate].
    unfold set_awaited in E1. inv E1.
    pose proof (remove_first_Forall' _ _ _ _ R HF) as FA1.
    set (g1 := clear_log (sc_g s) <| g_awaited := aw1 |>) in *.
    mstep as r g2 E2.
    pose proof (proj1 (proj2 (deliver_eff orc imm f)) _ _ _ _ _ _ _ _ _ E2) as DE.
    destruct r as [r|]; [|discriminate]. cbn [dres] in DE.
    destruct DE as [_ _ _ _ _ D6 _ _ _].
    destruct (D6 FA1) as (new & B1 & B2 & _). change (g_awaited g1) with aw1 in B1.
    exists aw1, new. split; [reflexivity|].
    assert (B2' : Forall (fun x => g_sid (sc_g s) <= x) new).
    { eapply Forall_impl; [|exact B2]. cbn. intros a Ha. exact (proj1 Ha). }
    destruct r as [[j st']|].
    - mstep. cbn [sc_g]. split; assumption.
    - mstep as u5 g5 E5. unfold finish_root in E5. mstep as u6 g6 E6.
      apply emit_gen_facts in E6. destruct E6 as (K1 & K2 & K3 & K4 & K5 & K6 & _).
      unfold set_running in E5. inv E5. mstep. cbn [sc_g].
      change (g_awaited (g6 <| g_running := false |>)) with (g_awaited g6).
      rewrite K6. split; assumption.
  Qed.

  Theorem accepted_completion_is_consumed : forall f s id s',
      reach s -> api_call orc imm f body s (AFinish id) = Ok (true, s') ->
      In id (ids_root (sc_root s))
      /\ ~ In id (ids_root (sc_root s'))
      /\ (forall x, x <> id -> In x (ids_root (sc_root s)) -> In x (ids_root (sc_root s')))
      /\ (forall x, In x (ids_root (sc_root s')) -> ~ In x (ids_root (sc_root s)) -> g_sid (sc_g s) <= x).
  Proof.
    intros f s id s' Hr H.
    assert (Hr' : reach s') by (eapply reach_step; eassumption).
    pose proof (reach_pinv _ Hr) as PI. pose proof (reach_pinv _ Hr') as PI'.
    pose proof (reach_awinv _ Hr) as AI.
    destruct (api_aw orc imm body _ _ _ _ _ AI H) as (_ & _ & A3).
    destruct (A3 id eq_refl eq_refl) as [_ NI].
    destruct (finish_awaited _ _ _ _ (proj1 PI) H) as (aw1 & new & R & B1 & B2).
    pose proof (remove_first_perm _ _ _ R) as P1.
    split; [|split; [|split]].
    - apply pinv_in; [exact PI|]. apply (proj1 (mem_In imm id _)).
      eapply accepted_was_awaited; eassumption.
    - intro Hi. apply NI. apply pinv_in; assumption.
    - intros x Hne Hx. apply pinv_in; [exact PI'|]. rewrite B1. apply in_or_app. left.
      apply (pinv_in _ x PI) in Hx. eapply Permutation_in in Hx; [|exact P1].
      destruct Hx as [Hx|Hx]; [congruence|exact Hx].
    - intros x Hx Hn. apply (pinv_in _ x PI') in Hx. rewrite B1 in Hx.
      apply in_app_or in Hx. destruct Hx as [Hx|Hx].
      + exfalso. apply Hn. apply pinv_in; [exact PI|].
        eapply Permutation_in; [apply Permutation_sym; exact P1|]. right. exact Hx.
      + rewrite Forall_forall in B2. apply B2. exact Hx.
  Qed.

  (* ---- scripts ---- *)
  Fixpoint exec (f : nat) (s : sched) (cs : list apicall) : res sched :=
    match cs with
    | [] => Ok s
    | c :: r => rbind (api_call orc imm f body s c) (fun '(_, s') => exec f s' r)
    end.

  Lemma exec_reach : forall f cs s s', reach s -> exec f s cs = Ok s' -> reach s'.
  Proof.
    intros f cs. induction cs as [|c cs IH]; intros s s' Hr H; cbn [exec] in H.
    - inv H. exact Hr.
    - destruct (api_call orc imm f body s c) as [[b s1]| | |] eqn:E; try discriminate.
      cbn [rbind] in H. eapply IH; [|exact H]. eapply reach_step; eassumption.
  Qed.

  Lemma run_script_prefix : forall f pre post s tr,
      run_script orc imm f body s (pre ++ post) = Ok tr ->
      exists s1, exec f s pre = Ok s1 /\ run_script orc imm f body s1 post = Ok (skipn (List.length pre) tr).
  Proof.
    intros f pre. induction pre as [|c pre IH]; intros post s tr H.
    - exists s. split; [reflexivity|exact H].
    - cbn [app run_script] in H. cbn [exec].
      destruct (api_call orc imm f body s c) as [[b s1]| | |] eqn:E; try discriminate.
      cbn [rbind] in H |- *.
      destruct (run_script orc imm f body s1 (pre ++ post)) as [t| | |] eqn:E2; try discriminate.
      cbn [rbind] in H. inv H. destruct (IH _ _ _ E2) as (s2 & X1 & X2).
      exists s2. split; [exact X1|exact X2].
  Qed.

  (* in every history of the reference semantics that runs without failure, each
     completion that is awaited at the moment it is reported is found in the tree *)
  Theorem script_completion_is_delivered : forall f pre id post tr,
      run_script orc imm f body sched0 (pre ++ AFinish id :: post) = Ok tr ->
      exists s, exec f sched0 pre = Ok s /\ reach s /\
        (mem id (g_awaited (sc_g s)) = true ->
         exists cid i sti,
           sc_root s = Some (RCall cid i sti)
           /\ In id (svc_ids sti)
           /\ wf_block body i sti
           /\ forall f' g g', deliver_block orc imm f' cid [] body i sti id g <> Ok (None, g')).
  Proof.
    intros f pre id post tr H. destruct (run_script_prefix _ _ _ _ _ H) as (s & X1 & _).
    exists s. split; [exact X1|].
    assert (Hr : reach s) by (eapply exec_reach; [apply reach_init|exact X1]).
    split; [exact Hr|]. intro Hm. apply accepted_completion_is_delivered; assumption.
  Qed.
End Api.

(* the hypotheses of the theorems above are satisfiable: after start() of a one-service
   order, identifier 0 is awaited in a reachable state *)
Example reach_nonvacuous :
  let body := [XService 1 root_site []] in
  exists s, reach (fun _ _ => None) (fun _ => false) body s
            /\ mem 0 (g_awaited (sc_g s)) = true
            /\ sc_root s = Some (RCall 0 0 (RAwait 0)).
Proof.
  intro body. eexists. split; [|split].
  - eapply (reach_step _ _ _ 5 _ AStart); [apply reach_init|]. vm_compute. reflexivity.
  - reflexivity.
  - reflexivity.
Qed.
