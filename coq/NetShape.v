(* NetShape.v — C20 and C17 on the FAITHFUL model (NetModel.v), for execution engines that do
   not complete services from inside notifications ([quiet_env]: no immediate completion, no
   completion of another pending service; the hostile mutation of the delivered list is
   arbitrary).

   1. [engine_reacts_quiet] / [er_body_quiet]: under [quiet_env] the recording engine never
      calls fire_event; its effect is the explicit state update [qeff] (its list of pending
      services, its two counters, the delivered list of the notified instance).
   2. [notify_user_quiet] / [notify_user_shape] / [nu_pure_spec]: one run of notify_user is the
      explicit pure state function [nu_pure]; what it adds to the log is exactly one
      notification group [render_fns] (every function registered for the kind, in registration
      order, same kind / name / site / identifier / context and the same sampled [running]; the
      delivered list is the same up to and including function 0 and its hostile image behind
      it: [render_fns_split], [render_fns_0], [render_fns_finished]) followed by one LOG_EVENT
      entry per attached observer in attachment order; [running] is cleared iff the
      order-finished flag is set; nothing else of the scheduler or the net is written
      ([qsame]).  Section 8: the same as a total equation ([notify_user_total]: with fuel >= 2
      a notification to a quiet engine cannot fail or run out of fuel).
   3. A third frame rule [qframe] / [qframe_block] (relations about the log that only have to
      respect oracle-query entries; notify_user is a separate obligation [nu_ok], discharged for
      quiet engines), its instance [NShape] (the log of every function of the mutual block is
      a concatenation of notification groups and queries: [sched_fire_event_shape],
      [evaluate_shape]), the API level [net_api_shape] / [net_shape_run] / [run_net_shape] (the
      analogue of RefShape.shape_run_ref, with Scheduler.running threaded through).  For
      [ec_mutate = 0] the rendering is RefShape.render ([nrender_0_log]) and the statement is
      RefShape.shape_run itself ([net_shape_run_ref], section 6; hypothesis [root_named]:
      nothing but the root is named productionTask -- scheduler.py tests the NAME).
   4. C20 / C17 read off the shape: per group ([C20_group], [C20_group_params]), per function
      and per observer ([seen_registered], [obs_of_attached], [observer_matches_function]),
      per API call ([net_call_C20_C17]) and over histories ([net_C20_same_sequence],
      [net_C17_observer_matches_function], [net_C17_flag], [run_net_same_sequence]).
   5. Non-vacuity by evaluation ([shape_inhabited]: hostile engine, two extra functions, two
      observers attached mid-run); the contrast without [quiet_env]
      ([C20_same_sequence_all_engines_false], [C17_observer_matches_all_engines_false], from
      NetIds.second_listener_case / observer_case).
   7. The executable monitors compare whole notifications, delivered list included: they reject
      the hostile example and accept the unmutated one ([monitors_on_examples]).  Proved
      fragments: for engines that do not mutate holds_C20 / holds_C17 accept every trace in
      which the notifications of one call are pairwise different
      ([net_C20_monitor_partial], [net_C17_monitor_partial], [run_net_monitors_partial]), in
      particular every trace the C07 monitor accepts ([run_net_monitors_from_C07]).  Open:
      [net_C20_monitor_statement], [net_C17_monitor_statement], [root_named_statement].
   9. For EVERY engine (re-entrant completions included): the log of every function of the
      block and of every API call is a well-formed nesting of notification groups ([WF] / [WFG],
      frame rule [gframe_block], [sched_fire_event_gshape], [net_api_wf], [net_wf_run],
      [run_net_wf]): every registered function exactly once per notification in registration
      order, only function 0's entry may be followed by nested scheduler activity, then one
      entry per observer.  Counting consequences ([WF_counts],
      [net_C20_same_count_all_engines], [net_C17_observer_count_all_engines]); the NetIds
      counterexamples are instances ([counts_on_counterexamples]): same counts, different
      entities.
   Proof file. *)
From PFDL Require Import Examples.
From PFDL Require Import RefC01 RefMonitors RefShape.
From PFDL Require Import NetModel NetRun NetC08 NetQuiescent NetIds.
Local Open Scope net_scope.

(* =========================================================================== *)
(* 1. engines that do not complete services from inside notifications           *)
(* =========================================================================== *)

Definition quiet_env (env : envcfg) : Prop :=
  (forall k, ec_imm env k = false) /\ (forall k, ec_react env k = None).

(* the recording engine's own effect during one notification of kind k about instance ai
   (whose API object is a): bookkeeping of its pending services, the hostile write to the
   delivered list (started notifications only), the two counters *)
Definition qeff (env : envcfg) (k : nkind) (ai : nat) (a : api) (s : NS) : NS :=
  let s1 := match k with
            | SS => s <| ns_pending := ns_pending s ++ [a_uuid a] |>
            | SF => s <| ns_pending := match remove_first (ident_eqb (a_uuid a)) (ns_pending s) with
                                       | Some l => l | None => ns_pending s end |>
            | _ => s
            end in
  let s2 := match k with
            | TS | SS => s1 <| ns_apis := upd ai (with_params (hostile (ec_mutate env) (a_params a))) (ns_apis s1) |>
            | _ => s1
            end in
  let s3 := match k with
            | SS => s2 <| ns_nss := S (ns_nss s2) |>
            | _ => s2
            end in
  s3 <| ns_nnot := S (ns_nnot s3) |>.

Section Quiet.
  Variable tasks : list task.
  Variable env : envcfg.
  Variable Q : quiet_env env.

  (* whatever fire_event is: it is never called *)
  Theorem er_body_quiet : forall sfe k ai s a,
      nth_error (ns_apis s) ai = Some a ->
      er_body env sfe k ai s = Ok (tt, qeff env k ai a s).
  Proof.
    intros sfe k ai s a Ha. destruct Q as [Qi Qr]. unfold er_body.
    rewrite (nbind_get_api _ _ _ _ _ Ha).
    destruct k; unfold nbind, nmod, nget, nret, set_api; cbn;
      rewrite ?Qi, ?Qr; cbn; destruct (ec_react_all env); cbn; reflexivity.
  Qed.

  Theorem er_body_quiet_missing : forall sfe k ai s,
      nth_error (ns_apis s) ai = None -> er_body env sfe k ai s = Exn IndexError.
  Proof. intros sfe k ai s Ha. unfold er_body, nbind, get_api. rewrite Ha. reflexivity. Qed.

  Theorem engine_reacts_quiet : forall f k ai s a,
      nth_error (ns_apis s) ai = Some a ->
      engine_reacts tasks env (S f) k ai s = Ok (tt, qeff env k ai a s).
  Proof. intros. rewrite engine_reacts_S. apply er_body_quiet. assumption. Qed.

  (* the form used below: every successful run is that update (at fuel 0 there is none) *)
  Definition quiet_er (er : nkind -> nat -> NM unit) : Prop :=
    forall k ai s u s', er k ai s = Ok (u, s') ->
                        exists a, nth_error (ns_apis s) ai = Some a /\ s' = qeff env k ai a s.

  Lemma er_body_quiet_er : forall sfe, quiet_er (er_body env sfe).
  Proof.
    intros sfe k ai s u s' H. destruct (nth_error (ns_apis s) ai) as [a|] eqn:Ha.
    - rewrite (er_body_quiet sfe k ai s a Ha) in H. okinv H. exists a. split; reflexivity.
    - rewrite (er_body_quiet_missing sfe k ai s Ha) in H. discriminate H.
  Qed.

  Theorem engine_reacts_quiet_er : forall f, quiet_er (engine_reacts tasks env f).
  Proof.
    intros [|f] k ai s u s' H; [discriminate H|]. rewrite engine_reacts_S in H.
    eapply er_body_quiet_er; eauto.
  Qed.
End Quiet.

(* =========================================================================== *)
(* 2. one notification                                                           *)
(* =========================================================================== *)

(* what the hostile engine leaves behind for the functions registered after it *)
Definition mutate_notif (m : nat) (n : notif) : notif :=
  match n_kind n with
  | TS | SS => {| n_kind := n_kind n; n_name := n_name n; n_site := n_site n; n_id := n_id n;
                  n_ctx := n_ctx n; n_params := hostile m (n_params n) |}
  | _ => n
  end.

(* the entries of the registered functions L (in this order) for notification n: function 0's
   mutation of the delivered list is visible to the functions behind it *)
Fixpoint render_fns (m : nat) (n : notif) (r : bool) (L : list nat) : list entry :=
  match L with
  | [] => []
  | l :: L' => ENotif l n r :: render_fns m (if Nat.eqb l 0 then mutate_notif m n else n) r L'
  end.

Definition render_obs (k : nkind) (nm : name) (id : nat) (flag : bool) (obs : list nat) : list entry :=
  map (fun o => EObs o k nm id flag) obs.

(* same scheduler and net, up to the engine's bookkeeping, the log and the delivered list of ai *)
Definition qsame (ai : nat) (s s' : NS) : Prop :=
  ns_places s' = ns_places s /\ ns_trans s' = ns_trans s /\ ns_cbs s' = ns_cbs s /\
  ns_place_dict s' = ns_place_dict s /\ ns_start_place s' = ns_start_place s /\
  ns_final_place s' = ns_final_place s /\ ns_fresh s' = ns_fresh s /\ ns_test_ids s' = ns_test_ids s /\
  ns_awaited s' = ns_awaited s /\ ns_counters s' = ns_counters s /\ ns_tid s' = ns_tid s /\
  ns_sid s' = ns_sid s /\ ns_ls s' = ns_ls s /\ ns_obs s' = ns_obs s /\ ns_q s' = ns_q s /\
  exists ps, ns_apis s' = upd ai (with_params ps) (ns_apis s).

Lemma upd_params_id : forall (l : list api) ai, exists ps, l = upd ai (with_params ps) l.
Proof.
  induction l as [|x l IH]; intros [|ai].
  - exists []. reflexivity.
  - exists []. reflexivity.
  - exists (a_params x). cbn. destruct x; reflexivity.
  - destruct (IH ai) as [ps H]. exists ps. cbn. rewrite <- H. reflexivity.
Qed.

Lemma qsame_refl : forall ai s, qsame ai s s.
Proof. intros ai s. unfold qsame. repeat (split; [reflexivity|]). apply upd_params_id. Qed.

Lemma qsame_trans : forall ai a b c, qsame ai a b -> qsame ai b c -> qsame ai a c.
Proof.
  intros ai a b c H1 H2. unfold qsame in *.
  repeat (match goal with H : _ /\ _ |- _ => destruct H as [? H] end).
  destruct H1 as [p1 H1]. destruct H2 as [p2 H2].
  repeat (split; [congruence|]). exists p2. rewrite H2, H1, upd_upd. apply upd_ext. intros []; reflexivity.
Qed.

Lemma ctx_uuid_nat_upd : forall s s' ai ps c,
    ns_apis s' = upd ai (with_params ps) (ns_apis s) -> ctx_uuid_nat s' c = ctx_uuid_nat s c.
Proof.
  intros s s' ai ps [c|] H; [|reflexivity]. cbn. rewrite H, nth_error_upd.
  destruct (Nat.eqb ai c); [|reflexivity]. destruct (nth_error (ns_apis s) c) as [[]|]; reflexivity.
Qed.

Section OneNotification.
  Variable env : envcfg.
  Variable k : nkind.
  Variable ai : nat.
  Notation m := (ec_mutate env).

  Definition each_step (l : nat) (a : api) (s : NS) : NS :=
    let s1 := s <| ns_log := rev [ENotif l (notif_of s k a) (ns_running s)] ++ ns_log s |> in
    if Nat.eqb l 0 then qeff env k ai a s1 else s1.

  Fixpoint each_pure (L : list nat) (s : NS) : NS :=
    match L with
    | [] => s
    | l :: L' =>
      match nth_error (ns_apis s) ai with
      | None => s
      | Some a => each_pure L' (each_step l a s)
      end
    end.

  Definition nu_pure (flag : bool) (s : NS) : NS :=
    let s1 := each_pure (listeners_of k (ns_ls s)) s in
    let s2 := if flag then s1 <| ns_running := false |> else s1 in
    match nth_error (ns_apis s2) ai with
    | None => s2
    | Some a => s2 <| ns_log := rev (render_obs k (a_name a) (ident_nat (a_uuid a)) flag (ns_obs s2)) ++ ns_log s2 |>
    end.

  Lemma each_step_spec : forall l a s,
      nth_error (ns_apis s) ai = Some a ->
      let s' := each_step l a s in
      qsame ai s s' /\ ns_running s' = ns_running s /\
      ns_log s' = ENotif l (notif_of s k a) (ns_running s) :: ns_log s /\
      exists a', nth_error (ns_apis s') ai = Some a' /\ a_name a' = a_name a /\ a_uuid a' = a_uuid a /\
                 notif_of s' k a' = (if Nat.eqb l 0 then mutate_notif m (notif_of s k a) else notif_of s k a).
  Proof.
    intros l a s Ha. unfold each_step. cbv zeta. destruct (Nat.eqb l 0).
    - split; [|split; [|split]].
      + unfold qsame. repeat (split; [destruct k; reflexivity|]).
        destruct k; cbn; first [eexists; reflexivity | apply upd_params_id].
      + destruct k; reflexivity.
      + destruct k; reflexivity.
      + destruct k; cbn; rewrite ?nth_error_upd, ?Nat.eqb_refl, Ha; cbn; eexists; (split; [reflexivity|]);
          (split; [reflexivity|]); (split; [reflexivity|]); unfold notif_of, mutate_notif; cbn; try reflexivity;
            f_equal; destruct (a_ctx a) as [c|]; cbn; try reflexivity; rewrite nth_error_upd;
              destruct (Nat.eqb ai c); try reflexivity; destruct (nth_error (ns_apis s) c) as [[]|]; reflexivity.
    - split; [|split; [|split]].
      + unfold qsame. cbn. repeat (split; [reflexivity|]). apply upd_params_id.
      + reflexivity.
      + reflexivity.
      + exists a. cbn. split; [exact Ha|]. repeat (split; [reflexivity|]). reflexivity.
  Qed.

  Lemma each_pure_spec : forall L s a,
      nth_error (ns_apis s) ai = Some a ->
      let s' := each_pure L s in
      qsame ai s s' /\ ns_running s' = ns_running s /\
      ns_log s' = rev (render_fns m (notif_of s k a) (ns_running s) L) ++ ns_log s /\
      exists a', nth_error (ns_apis s') ai = Some a' /\ a_name a' = a_name a /\ a_uuid a' = a_uuid a.
  Proof.
    induction L as [|l L IH]; intros s a Ha; cbn [each_pure].
    - split; [apply qsame_refl|]. split; [reflexivity|]. split; [reflexivity|].
      exists a. repeat split; auto.
    - rewrite Ha. destruct (each_step_spec l a s Ha) as (S1 & S2 & S3 & a1 & S4 & S5 & S6 & S7).
      destruct (IH _ _ S4) as (T1 & T2 & T3 & a2 & T4 & T5 & T6). cbv zeta.
      split; [eapply qsame_trans; eauto|]. split; [congruence|]. split.
      + rewrite T3, S7, S2, S3. cbn [render_fns rev]. rewrite <- app_assoc. reflexivity.
      + exists a2. split; [exact T4|]. split; congruence.
  Qed.
End OneNotification.

Lemma nth_error_skipn_nil : forall A (l : list A) i, nth_error l i = None -> skipn i l = [].
Proof.
  intros A l. induction l as [|x l IH]; intros [|i] H; try reflexivity; try discriminate H.
  cbn in *. apply IH. exact H.
Qed.

Lemma qeff_ls : forall env k ai a s, ns_ls (qeff env k ai a s) = ns_ls s.
Proof. intros env [] ai a s; reflexivity. Qed.
Lemma qeff_apis_len : forall env k ai a s, List.length (ns_apis (qeff env k ai a s)) = List.length (ns_apis s).
Proof. intros env [] ai a s; cbn; rewrite ?upd_length; reflexivity. Qed.

Section NotifyQuiet.
  Variable tasks : list task.
  Variable env : envcfg.
  Variable Q : quiet_env env.
  Notation m := (ec_mutate env).

  (* the loop over the registered functions *)
  Lemma notify_each_quiet : forall er, quiet_er env er -> forall k ai h i s u s',
      notify_each er k ai h i s = Ok (u, s') ->
      s' = each_pure env k ai (skipn i (listeners_of k (ns_ls s))) s.
  Proof.
    intros er Her k ai. induction h as [|h IH]; intros i s u s' H; [discriminate H|].
    cbn [notify_each] in H. fold (notify_each er k ai) in H.
    ninv H as s0 s1 E. okinv E.
    destruct (nth_error (listeners_of k (ns_ls s1)) i) as [l|] eqn:El.
    2:{ okinv H. rewrite (nth_error_skipn_nil _ _ _ El). reflexivity. }
    rewrite (skipn_nth _ _ _ _ El). cbn [each_pure].
    ninv H as a s2 E. apply get_api_inv in E. destruct E as [-> Ea]. rewrite Ea.
    ninv H as u1 s2 E. okinv E.
    ninv H as u2 s3 E.
    unfold each_step. cbv zeta.
    destruct (Nat.eqb l 0).
    - apply Her in E. destruct E as (a' & Ea' & ->). cbn in Ea'. rewrite Ea in Ea'. okinv Ea'.
      apply IH in H. rewrite qeff_ls in H. exact H.
    - okinv E. apply IH in H. exact H.
  Qed.

  (* notify_user: every successful run is the pure function [nu_pure] *)
  Theorem nu_body_quiet : forall er, quiet_er env er -> forall k ai flag s u s',
      nu_body er k ai flag s = Ok (u, s') ->
      (exists a, nth_error (ns_apis s) ai = Some a) /\ s' = nu_pure env k ai flag s.
  Proof.
    intros er Her k ai flag s u s' H. unfold nu_body in H.
    ninv H as s0 s1 E. okinv E.
    ninv H as u1 s2 E. apply (notify_each_quiet er Her) in E. cbn [skipn] in E.
    ninv H as u2 s3 E2.
    assert (X : s3 = if flag then s2 <| ns_running := false |> else s2) by (destruct flag; okinv E2; reflexivity).
    clear E2.
    ninv H as a s4 E3. apply get_api_inv in E3. destruct E3 as [E3 Ea]. subst s4.
    ninv H as s5 s6 E4. inversion E4; subst s5 s6; clear E4. inversion H; subst s'; clear H.
    unfold nu_pure. cbv zeta. rewrite <- E, <- X, Ea. split; [|reflexivity].
    (* the API object exists at the start: the list never changes its length *)
    assert (L : List.length (ns_apis s3) = List.length (ns_apis s1)).
    { destruct (nth_error (ns_apis s1) ai) as [a0|] eqn:E0.
      - destruct (each_pure_spec env k ai (listeners_of k (ns_ls s1)) s1 a0 E0) as ((_ & _ & _ & _ & _ & _ & _ & _ & _ & _ & _ & _ & _ & _ & _ & ps & Hp) & _).
        rewrite <- E in Hp. rewrite X. destruct flag; cbn; rewrite Hp, upd_length; reflexivity.
      - assert (Hs : s2 = s1).
        { rewrite E. destruct (listeners_of k (ns_ls s1)); cbn [each_pure]; [reflexivity|rewrite E0; reflexivity]. }
        rewrite X, Hs. destruct flag; reflexivity. }
    destruct (nth_error (ns_apis s1) ai) as [a0|] eqn:E0; [eauto|].
    exfalso. apply nth_error_None in E0. assert (ai < List.length (ns_apis s3)) by (apply nth_error_Some; congruence). lia.
  Qed.

  Theorem notify_user_quiet : forall f k ai flag s u s',
      notify_user tasks env f k ai flag s = Ok (u, s') ->
      (exists a, nth_error (ns_apis s) ai = Some a) /\ s' = nu_pure env k ai flag s.
  Proof.
    intros [|f] k ai flag s u s' H; [discriminate H|]. rewrite notify_user_S in H.
    eapply nu_body_quiet; [|exact H]. apply engine_reacts_quiet_er. exact Q.
  Qed.

  (* the state after one notification, field by field *)
  Theorem nu_pure_spec : forall k ai flag s a,
      nth_error (ns_apis s) ai = Some a ->
      let s' := nu_pure env k ai flag s in
      ns_log s' = rev (render_fns m (notif_of s k a) (ns_running s) (listeners_of k (ns_ls s))
                       ++ render_obs k (a_name a) (ident_nat (a_uuid a)) flag (ns_obs s)) ++ ns_log s /\
      ns_running s' = (if flag then false else ns_running s) /\
      qsame ai s s'.
  Proof.
    intros k ai flag s a Ha. unfold nu_pure. cbv zeta.
    destruct (each_pure_spec env k ai (listeners_of k (ns_ls s)) s a Ha) as (S1 & S2 & S3 & a1 & S4 & S5 & S6).
    set (s1 := each_pure env k ai (listeners_of k (ns_ls s)) s) in *.
    assert (O : ns_obs s1 = ns_obs s) by (apply S1).
    destruct flag; cbn; rewrite S4; cbn; rewrite S3, O, S5, S6, rev_app_distr, <- app_assoc;
      (split; [reflexivity|]); (split; [first [reflexivity|exact S2]|]); exact S1.
  Qed.

  (* C20/C17 for one notification on the faithful model *)
  Theorem notify_user_shape : forall f k ai flag s u s',
      notify_user tasks env f k ai flag s = Ok (u, s') ->
      exists a, nth_error (ns_apis s) ai = Some a /\
        ns_log s' = rev (render_fns m (notif_of s k a) (ns_running s) (listeners_of k (ns_ls s))
                         ++ render_obs k (a_name a) (ident_nat (a_uuid a)) flag (ns_obs s)) ++ ns_log s /\
        ns_running s' = (if flag then false else ns_running s) /\
        qsame ai s s'.
  Proof.
    intros f k ai flag s u s' H. apply notify_user_quiet in H. destruct H as [[a Ha] ->].
    exists a. split; [exact Ha|]. apply nu_pure_spec. exact Ha.
  Qed.
End NotifyQuiet.

(* ---- what a notification group looks like ---- *)
Definition fn_of (e : entry) : list nat := match e with ENotif l _ _ => [l] | _ => [] end.

(* same entity: kind, name, site, identifier and context agree (the delivered list may differ) *)
Definition same_entity (n n' : notif) : Prop :=
  n_kind n' = n_kind n /\ n_name n' = n_name n /\ n_site n' = n_site n /\ n_id n' = n_id n /\ n_ctx n' = n_ctx n.

Lemma same_entity_refl : forall n, same_entity n n.
Proof. intro n. repeat split. Qed.
Lemma same_entity_trans : forall a b c, same_entity a b -> same_entity b c -> same_entity a c.
Proof. unfold same_entity. intros a b c H1 H2. intuition congruence. Qed.
Lemma mutate_notif_entity : forall m n, same_entity n (mutate_notif m n).
Proof. intros m n. unfold mutate_notif. destruct (n_kind n) eqn:E; repeat split; cbn; auto. Qed.

Lemma mutate_notif_0 : forall n, mutate_notif 0 n = n.
Proof. intros [[] nm st id cx ps]; reflexivity. Qed.

Lemma mutate_notif_finished : forall m n, n_kind n = TF \/ n_kind n = SF -> mutate_notif m n = n.
Proof. intros m n [H|H]; unfold mutate_notif; rewrite H; reflexivity. Qed.

(* every registered function exactly once, in registration order *)
Theorem render_fns_functions : forall m n r L, flat_map fn_of (render_fns m n r L) = L.
Proof.
  intros m n r L. revert n. induction L as [|l L IH]; intro n; cbn; [reflexivity|]. rewrite IH. reflexivity.
Qed.

Theorem render_fns_length : forall m n r L, List.length (render_fns m n r L) = List.length L.
Proof. intros m n r L. revert n. induction L as [|l L IH]; intro n; cbn; [reflexivity|]. rewrite IH. reflexivity. Qed.

(* all entries are about the same entity and carry the same sampled [running] *)
Theorem render_fns_entity : forall m n r L,
    Forall (fun e => exists l n', e = ENotif l n' r /\ same_entity n n') (render_fns m n r L).
Proof.
  intros m n r L. revert n. induction L as [|l L IH]; intro n; cbn [render_fns]; constructor.
  - exists l, n. split; [reflexivity|apply same_entity_refl].
  - specialize (IH (if Nat.eqb l 0 then mutate_notif m n else n)).
    eapply Forall_impl; [|exact IH]. cbv beta. intros e (l' & n' & H1 & H2). exists l', n'. split; [exact H1|].
    eapply same_entity_trans; [|exact H2]. destruct (Nat.eqb l 0); [apply mutate_notif_entity|apply same_entity_refl].
Qed.

(* when nothing is mutated, every function gets the same argument *)
Lemma render_fns_fix : forall m n r L, mutate_notif m n = n -> render_fns m n r L = map (fun l => ENotif l n r) L.
Proof.
  intros m n r L H. induction L as [|l L IH]; cbn; [reflexivity|].
  destruct (Nat.eqb l 0); rewrite ?H, IH; reflexivity.
Qed.

Theorem render_fns_0 : forall n r L, render_fns 0 n r L = map (fun l => ENotif l n r) L.
Proof. intros. apply render_fns_fix. apply mutate_notif_0. Qed.

Theorem render_fns_finished : forall m n r L,
    n_kind n = TF \/ n_kind n = SF -> render_fns m n r L = map (fun l => ENotif l n r) L.
Proof. intros. apply render_fns_fix. apply mutate_notif_finished. assumption. Qed.

Theorem render_fns_no0 : forall m n r L, ~ In 0 L -> render_fns m n r L = map (fun l => ENotif l n r) L.
Proof.
  intros m n r L H. induction L as [|l L IH]; cbn; [reflexivity|].
  destruct l as [|l]; [exfalso; apply H; left; reflexivity|]. cbn [Nat.eqb]. rewrite IH; [reflexivity|].
  intro Hi. apply H. right. exact Hi.
Qed.

(* in general: the same argument up to and including function 0, its hostile image behind it *)
Theorem render_fns_split : forall m n r L1 L2,
    ~ In 0 L1 -> ~ In 0 L2 ->
    render_fns m n r (L1 ++ 0 :: L2) =
    map (fun l => ENotif l n r) L1 ++ ENotif 0 n r :: map (fun l => ENotif l (mutate_notif m n) r) L2.
Proof.
  intros m n r L1 L2 H1 H2. induction L1 as [|l L1 IH]; cbn.
  - rewrite render_fns_no0 by exact H2. reflexivity.
  - destruct l as [|l]; [exfalso; apply H1; left; reflexivity|]. cbn [Nat.eqb]. rewrite IH; [reflexivity|].
    intro Hi. apply H1. right. exact Hi.
Qed.

Lemma NoDup_split_0 : forall L : list nat, NoDup L -> In 0 L -> exists L1 L2, L = L1 ++ 0 :: L2 /\ ~ In 0 L1 /\ ~ In 0 L2.
Proof.
  intros L N H. apply in_split in H. destruct H as (L1 & L2 & ->). exists L1, L2. split; [reflexivity|].
  apply NoDup_remove_2 in N. split; intro Hi; apply N; apply in_app_iff; [left|right]; exact Hi.
Qed.

(* =========================================================================== *)
(* 3. a third frame rule: relations about the log                                *)
(* =========================================================================== *)
(* Like NetIds.wframe, but the only log entries the relation has to respect by itself are
   oracle queries; running / pending / the engine's counters are not written outside
   notify_user, which is a separate obligation (for a quiet engine). *)

Definition queryb (es : list entry) : bool :=
  forallb (fun e => match e with EQuery _ _ => true | _ => false end) es.

Lemma queryb_queries : forall c vs, queryb (map (fun v => EQuery v c) vs) = true.
Proof. intros c vs. induction vs as [|v vs IH]; [reflexivity|exact IH]. Qed.

Record qframe (R : NS -> NS -> Prop) : Prop := {
  q_refl : forall s, R s s;
  q_trans : forall a b c, R a b -> R b c -> R a c;
  q_cbs : forall s index f, R s (s <| ns_cbs := upd index f (ns_cbs s) |>);
  q_fresh_uuid : fpres R fresh_uuid;
  q_set_uuid : forall i u, fpres R (set_api i (with_uuid u));
  q_set_params : forall i ps, fpres R (set_api i (with_params ps));
  q_place_dict : forall s u p, R s (s <| ns_place_dict := (u, p) :: ns_place_dict s |>);
  q_tid : forall s, R s (s <| ns_tid := S (ns_tid s) |>);
  q_sid : forall s, R s (s <| ns_sid := S (ns_sid s) |>);
  q_log : forall es, queryb es = true -> fpres R (nlog es);
  q_counters : forall s v, R s (s <| ns_counters := v |>);
  q_q : forall s v, R s (s <| ns_q := v |>);
  q_awaited : forall s v, R s (s <| ns_awaited := v |>);
  q_create_place : fpres R create_place;
  q_create_transition : fpres R create_transition;
  q_add_input : forall p t, fpres R (add_input p t);
  q_add_output : forall p t, fpres R (add_output p t);
  q_add_callback : forall t c, fpres R (add_callback t c);
  q_place_add : forall p, fpres R (place_add p);
  q_fire_trans : forall t, fpres R (fire_trans t);
  q_remove_place : forall p, fpres R (remove_place p);
  q_new_api : forall a, fpres R (new_api a);
  (* generate_petri_net only *)
  q_start_final : forall s p q, R s (s <| ns_start_place := p |> <| ns_final_place := q |>)
}.

Section QCombinators.
  Variable R : NS -> NS -> Prop.
  Variable W : qframe R.

  Lemma qp_ext : forall A (m m' : NM A), (forall s, m s = m' s) -> fpres R m' -> fpres R m.
  Proof. intros A m m' E H s a s' H1. rewrite E in H1. eauto. Qed.
  Lemma qp_ret : forall A (a : A), fpres R (nret a).
  Proof. intros A a s a' s' H. inversion H. apply (q_refl R W). Qed.
  Lemma qp_get : fpres R nget.
  Proof. intros s a s' H. inversion H. apply (q_refl R W). Qed.
  Lemma qp_fail : forall A (r : res A), fpres R (nfail r).
  Proof. intros A r s a s' H. unfold nfail in H. destruct r; inversion H. apply (q_refl R W). Qed.
  Lemma qp_bind : forall A B (m : NM A) (k : A -> NM B),
      fpres R m -> (forall a, fpres R (k a)) -> fpres R (nbind m k).
  Proof.
    intros A B m k Hm Hk s b s' H. apply nbind_inv in H. destruct H as (a & s1 & H1 & H2).
    eapply (q_trans R W); [eapply Hm|eapply Hk]; eauto.
  Qed.
  Lemma qp_mod : forall f, (forall s, R s (f s)) -> fpres R (nmod f).
  Proof. intros f Hf s a s' H. inversion H. apply Hf. Qed.
  Lemma qp_nfor : forall A (l : list A) f, (forall x, fpres R (f x)) -> fpres R (nfor l f).
  Proof.
    intros A l f Hf. induction l as [|x l IH]; cbn [nfor].
    - apply qp_ret.
    - apply qp_bind; auto.
  Qed.
  Lemma qp_get_api : forall i, fpres R (get_api i).
  Proof.
    intros i s a s' H. unfold get_api in H. destruct (nth_error (ns_apis s) i); inversion H.
    apply (q_refl R W).
  Qed.
End QCombinators.

Create HintDb qpres.

Ltac qp_step W :=
  match goal with
  | |- fpres _ (nbind _ _) => apply (qp_bind _ W); [| intro]
  | |- fpres _ (nret _) => apply (qp_ret _ W)
  | |- fpres _ nget => apply (qp_get _ W)
  | |- fpres _ (nfail _) => apply (qp_fail _ W)
  | |- fpres _ (get_api _) => apply (qp_get_api _ W)
  | |- fpres _ (nfor _ _) => apply (qp_nfor _ W); intro
  | |- fpres _ (nmod _) =>
    apply qp_mod; intro; cbv beta;
    first [ apply (q_cbs _ W) | apply (q_place_dict _ W) | apply (q_tid _ W) | apply (q_sid _ W)
          | apply (q_counters _ W) | apply (q_q _ W) | apply (q_awaited _ W)
          | apply (q_start_final _ W) ]
  | |- fpres _ fresh_uuid => apply (q_fresh_uuid _ W)
  | |- fpres _ (set_api _ (with_uuid _)) => apply (q_set_uuid _ W)
  | |- fpres _ (set_api _ (with_params _)) => apply (q_set_params _ W)
  | |- fpres _ (nlog _) =>
    apply (q_log _ W); first [reflexivity | apply queryb_queries]
  | |- fpres _ create_place => apply (q_create_place _ W)
  | |- fpres _ create_transition => apply (q_create_transition _ W)
  | |- fpres _ (add_input _ _) => apply (q_add_input _ W)
  | |- fpres _ (add_output _ _) => apply (q_add_output _ W)
  | |- fpres _ (add_callback _ _) => apply (q_add_callback _ W)
  | |- fpres _ (place_add _) => apply (q_place_add _ W)
  | |- fpres _ (fire_trans _) => apply (q_fire_trans _ W)
  | |- fpres _ (remove_place _) => apply (q_remove_place _ W)
  | |- fpres _ (new_api _) => apply (q_new_api _ W)
  | |- fpres _ (if ?b then _ else _) => destruct b
  | |- fpres _ (match ?x with _ => _ end) => destruct x
  | |- fpres _ _ => solve [auto with qpres]
  end.
Ltac qp_tac W := cbv zeta; repeat (qp_step W).

(* what is known about the order-finished flag where notify_user is called *)
Definition flag_pre (k : nkind) (ai : nat) (b : bool) (s : NS) : Prop :=
  forall a, nth_error (ns_apis s) ai = Some a -> b = nkind_eqb k TF && Nat.eqb (a_name a) production_task.

Section QFrame.
  Variable R : NS -> NS -> Prop.
  Variable W : qframe R.
  Variable tasks : list task.
  Variable env : envcfg.

  Lemma qp_pop_cb : forall i, fpres R (pop_cb i).
  Proof. intros. unfold pop_cb. qp_tac W. Qed.
  Lemma qp_set_counters : forall u d, fpres R (set_counters u d).
  Proof. intros. unfold set_counters. qp_tac W. Qed.
  Lemma qp_new_test_or_uuid : forall b, fpres R (new_test_or_uuid b).
  Proof. intro b. unfold new_test_or_uuid. qp_tac W. Qed.
  Hint Resolve qp_pop_cb qp_set_counters qp_new_test_or_uuid : qpres.
  Lemma qp_substitute_loop_indexes : forall ai, fpres R (substitute_loop_indexes tasks ai).
  Proof. intro ai. unfold substitute_loop_indexes. qp_tac W. Qed.
  Lemma qp_get_loop_limit : forall lim ctx, fpres R (get_loop_limit env lim ctx).
  Proof. intros. unfold get_loop_limit. qp_tac W. Qed.
  Lemma qp_check_expression : forall e ctx, fpres R (check_expression env e ctx).
  Proof. intros. unfold check_expression. qp_tac W. Qed.
  Lemma qp_rebind_uuid : forall a ai u, fpres R (rebind_uuid a ai u).
  Proof. intros. unfold rebind_uuid. qp_tac W. Qed.
  Hint Resolve qp_substitute_loop_indexes qp_get_loop_limit qp_check_expression qp_rebind_uuid : qpres.

  Lemma qp_each_with : forall rc index, (forall c, fpres R (rc c)) ->
      forall h i, fpres R (each_with rc index h i).
  Proof.
    intros rc index Hrc. induction h as [|h IH]; intro i.
    - cbn [each_with]. qp_tac W.
    - cbn [each_with]. fold (each_with rc index). qp_tac W.
  Qed.
  Hint Resolve qp_each_with : qpres.

  (* ---- the generator ---- *)
  Lemma qp_generate_service : forall n ins at_ ctx t1 t2 il,
      fpres R (generate_service n ins at_ ctx t1 t2 il).
  Proof. intros. unfold generate_service. qp_tac W. Qed.
  Lemma qp_generate_empty_parallel_loop : forall t1 t2, fpres R (generate_empty_parallel_loop t1 t2).
  Proof. intros. unfold generate_empty_parallel_loop. qp_tac W. Qed.
  Hint Resolve qp_generate_service qp_generate_empty_parallel_loop : qpres.

  Lemma qp_gen_go : forall gs n ctx tn pre first last il,
      (forall ctx tn path s t1 t2 il, fpres R (gs ctx tn path s t1 t2 il)) ->
      forall l i prev acc, fpres R (gen_go gs n ctx tn pre first last il i l prev acc).
  Proof.
    intros gs n ctx tn pre first last il Hgs. induction l as [|s r IH]; intros i prev acc.
    - cbn [gen_go]. qp_tac W.
    - cbn [gen_go]. fold (gen_go gs n ctx tn pre first last il). qp_tac W.
  Qed.

  Lemma qp_gen_calls : forall gtc ctx tn path t1 sync il,
      (forall c at_ ctx t1 t2 il, fpres R (gtc c at_ ctx t1 t2 il)) ->
      forall l i, fpres R (gen_calls gtc ctx tn path t1 sync il i l).
  Proof.
    intros gtc ctx tn path t1 sync il Hg. induction l as [|c r IH]; intro i.
    - cbn [gen_calls]. qp_tac W.
    - cbn [gen_calls]. fold (gen_calls gtc ctx tn path t1 sync il). qp_tac W.
  Qed.
  Hint Resolve qp_gen_go qp_gen_calls : qpres.

  Lemma qp_gstmt_body : forall gss gtc,
      (forall ctx tn pre ss first last il, fpres R (gss ctx tn pre ss first last il)) ->
      (forall c at_ ctx t1 t2 il, fpres R (gtc c at_ ctx t1 t2 il)) ->
      forall ctx tn path s t1 t2 il, fpres R (gstmt_body gss gtc ctx tn path s t1 t2 il).
  Proof.
    intros gss gtc H1 H2 ctx tn path s t1 t2 il. unfold gstmt_body. qp_tac W.
  Qed.

  Lemma qp_gtc_body : forall gss,
      (forall ctx tn pre ss first last il, fpres R (gss ctx tn pre ss first last il)) ->
      forall c at_ ctx t1 t2 il, fpres R (gtc_body tasks gss c at_ ctx t1 t2 il).
  Proof. intros gss H1 c at_ ctx t1 t2 il. unfold gtc_body. qp_tac W. Qed.

  Theorem qframe_generate : forall f,
      (forall ctx tn pre ss first last il, fpres R (generate_statements tasks f ctx tn pre ss first last il)) /\
      (forall ctx tn path s t1 t2 il, fpres R (generate_stmt tasks f ctx tn path s t1 t2 il)) /\
      (forall c at_ ctx t1 t2 il, fpres R (generate_task_call tasks f c at_ ctx t1 t2 il)).
  Proof.
    induction f as [|f (IH1 & IH2 & IH3)].
    - split; [|split]; intros; intros ? ? ? HH; discriminate HH.
    - split; [|split]; intros.
      + eapply qp_ext; [intro; apply generate_statements_S|]. apply qp_gen_go. exact IH2.
      + eapply qp_ext; [intro; apply generate_stmt_S|]. apply qp_gstmt_body; assumption.
      + eapply qp_ext; [intro; apply generate_task_call_S|]. apply qp_gtc_body; assumption.
  Qed.

  Lemma qp_generate_petri_net : forall f, fpres R (generate_petri_net tasks f).
  Proof.
    intro f. unfold generate_petri_net.
    pose proof (proj1 (qframe_generate f)) as Hg.
    qp_tac W.
  Qed.

  (* ---- the scheduler block ---- *)
  Lemma qp_parloop_generate : forall v lim ctx c csite ph t1 t2,
      fpres R (parloop_generate tasks env v lim ctx c csite ph t1 t2).
  Proof.
    intros. unfold parloop_generate.
    pose proof (proj2 (proj2 (qframe_generate 200))) as Hg.
    qp_tac W.
  Qed.
  Hint Resolve qp_parloop_generate : qpres.

  Lemma qp_scan_with : forall rc snap, (forall c, fpres R (rc c)) ->
      forall g index, fpres R (scan_with rc snap g index).
  Proof.
    intros rc snap Hrc. induction g as [|g IH]; intro index.
    - cbn [scan_with]. qp_tac W.
    - cbn [scan_with]. fold (scan_with rc snap). qp_tac W.
  Qed.

  Lemma qp_run_cb_body : forall ev_ ots otf oss osf sfe,
      fpres R ev_ -> (forall a, fpres R (ots a)) -> (forall a, fpres R (otf a)) ->
      (forall a, fpres R (oss a)) -> (forall a, fpres R (osf a)) -> (forall e, fpres R (sfe e)) ->
      forall c, fpres R (run_cb_body tasks env ev_ ots otf oss osf sfe c).
  Proof.
    intros ev_ ots otf oss osf sfe H1 H2 H3 H4 H5 H6 c.
    destruct c; cbn [run_cb_body]; unfold await_and_fire; try solve [qp_tac W].
    apply qp_ext with (m' := parloop_generate tasks env v lim ctx c csite ph t1 t2 ;;~ ev_);
      [intro; apply parloop_then_eq|]. qp_tac W.
  Qed.

  Lemma qp_lfe_body : forall ev_, fpres R ev_ -> forall ev, fpres R (lfe_body ev_ ev).
  Proof. intros ev_ H ev. unfold lfe_body. qp_tac W. Qed.
  Lemma qp_sfe_body : forall lfe, (forall e, fpres R (lfe e)) -> forall ev, fpres R (sfe_body lfe ev).
  Proof. intros lfe H ev. unfold sfe_body. qp_tac W. Qed.

  (* ---- notify_user as an obligation ---- *)
  Definition nu_ok (nu : nkind -> nat -> bool -> NM unit) : Prop :=
    forall k ai b s u s', nu k ai b s = Ok (u, s') -> flag_pre k ai b s -> R s s'.

  Lemma nu_ok_false : forall nu, nu_ok nu ->
      (forall ai, fpres R (nu TS ai false)) /\ (forall ai, fpres R (nu SS ai false)) /\
      (forall ai, fpres R (nu SF ai false)).
  Proof.
    intros nu H. split; [|split]; intros ai s u s' H1; apply (H _ _ _ _ _ _ H1); intros a _; reflexivity.
  Qed.

  Lemma qp_ots_body : forall nu, nu_ok nu -> forall ai, fpres R (ots_body tasks nu ai).
  Proof. intros nu H ai. destruct (nu_ok_false nu H) as (H1 & H2 & H3). unfold ots_body. qp_tac W. Qed.
  Lemma qp_oss_body : forall nu, nu_ok nu -> forall ai, fpres R (oss_body tasks nu ai).
  Proof. intros nu H ai. destruct (nu_ok_false nu H) as (H1 & H2 & H3). unfold oss_body. qp_tac W. Qed.
  Lemma qp_otf_body : forall nu, nu_ok nu -> forall ai, fpres R (otf_body nu ai).
  Proof.
    intros nu H ai s u s' H1. unfold otf_body in H1.
    ninv H1 as a s1 E. apply get_api_inv in E. destruct E as [-> Ea].
    apply (H _ _ _ _ _ _ H1). intros a' Ha'. rewrite Ea in Ha'. inversion Ha'. reflexivity.
  Qed.

  Variable Q : quiet_env env.
  Variable HNU : forall er, quiet_er env er -> nu_ok (nu_body er).

  Theorem qframe_block : forall f,
      fpres R (evaluate tasks env f) /\
      (forall c, fpres R (run_cb tasks env f c)) /\
      (forall a, fpres R (on_task_started tasks env f a)) /\
      (forall a, fpres R (on_service_started tasks env f a)) /\
      (forall a, fpres R (on_service_finished tasks env f a)) /\
      (forall a, fpres R (on_task_finished tasks env f a)) /\
      nu_ok (notify_user tasks env f) /\
      (forall ev, fpres R (sched_fire_event tasks env f ev)) /\
      (forall ev, fpres R (logic_fire_event tasks env f ev)).
  Proof.
    induction f as [|f (I1 & I2 & I3 & I4 & I5 & I6 & I7 & I9 & I10)].
    - repeat (split; [intros; intros ? ? ? HH; discriminate HH|]). split; [|split].
      + intros k ai b s u s' HH. discriminate HH.
      + intros; intros ? ? ? HH; discriminate HH.
      + intros; intros ? ? ? HH; discriminate HH.
    - destruct (nu_ok_false _ I7) as (_ & _ & I7s).
      split; [|split; [|split; [|split; [|split; [|split; [|split; [|split]]]]]]]; intros.
      + intros s a s' HH. rewrite evaluate_S in HH. eapply qp_scan_with; eauto.
      + eapply qp_ext; [intro; apply run_cb_S|]. apply qp_run_cb_body; assumption.
      + eapply qp_ext; [intro; apply on_task_started_S|]. apply qp_ots_body; assumption.
      + eapply qp_ext; [intro; apply on_service_started_S|]. apply qp_oss_body; assumption.
      + eapply qp_ext; [intro; apply on_service_finished_S|]. apply I7s.
      + eapply qp_ext; [intro; apply on_task_finished_S|]. apply qp_otf_body; assumption.
      + intros k ai b s u s' HH. rewrite notify_user_S in HH. eapply HNU; [|exact HH].
        apply engine_reacts_quiet_er. exact Q.
      + eapply qp_ext; [intro; apply sched_fire_event_S'|]. apply qp_sfe_body; assumption.
      + eapply qp_ext; [intro; apply logic_fire_event_S|]. apply qp_lfe_body; assumption.
  Qed.
End QFrame.

Arguments qframe_generate {R} W tasks f.
Arguments qframe_block {R} W tasks env Q HNU f.
Arguments qp_generate_petri_net {R} W tasks f.

(* =========================================================================== *)
(* 3b. the shape of the log of the mutual block                                  *)
(* =========================================================================== *)

(* abstract events, as in RefShape *)
Inductive nev :=
| NNot (n : notif) (flag : bool) (running : bool)
| NQ (v : name) (ctx : nat).

(* one notification group (functions, then observers) resp. one query *)
Definition nrender (m : nat) (ls : list (nkind * nat)) (obs : list nat) (e : nev) : list entry :=
  match e with
  | NNot n flag r =>
    render_fns m n r (listeners_of (n_kind n) ls)
    ++ render_obs (n_kind n) (n_name n) (n_id n) flag obs
  | NQ v c => [EQuery v c]
  end.

(* the order-finished flag: scheduler.py sets it for the finished notification of a task
   named productionTask *)
Definition nflag_ok (e : nev) : Prop :=
  match e with
  | NNot n flag _ => flag = is_kind TF n && Nat.eqb (n_name n) production_task
  | NQ _ _ => True
  end.

(* [running] as sampled inside the functions: the value before the notification; the
   notification that carries the flag clears it *)
Fixpoint run_trace (r : bool) (evs : list nev) (r' : bool) : Prop :=
  match evs with
  | [] => r' = r
  | NNot _ flag r0 :: t => r0 = r /\ run_trace (if flag then false else r) t r'
  | NQ _ _ :: t => run_trace r t r'
  end.

Lemma run_trace_app : forall e1 e2 r r1 r2,
    run_trace r e1 r1 -> run_trace r1 e2 r2 -> run_trace r (e1 ++ e2) r2.
Proof.
  induction e1 as [|[n flag r0|v c] e1 IH]; intros e2 r r1 r2 H1 H2; cbn in *.
  - subst r1. exact H2.
  - destruct H1 as [-> H1]. split; [reflexivity|]. eapply IH; eauto.
  - eapply IH; eauto.
Qed.

Definition NShape (m : nat) (s s' : NS) : Prop :=
  ns_ls s' = ns_ls s /\ ns_obs s' = ns_obs s /\
  exists evs, ns_log s' = rev (flat_map (nrender m (ns_ls s) (ns_obs s)) evs) ++ ns_log s
              /\ Forall nflag_ok evs /\ run_trace (ns_running s) evs (ns_running s').

Lemma NShape_pure : forall m s s',
    ns_ls s' = ns_ls s -> ns_obs s' = ns_obs s -> ns_running s' = ns_running s -> ns_log s' = ns_log s ->
    NShape m s s'.
Proof.
  intros m s s' H1 H2 H3 H4. split; [exact H1|]. split; [exact H2|]. exists []. split; [rewrite H4; reflexivity|].
  split; [constructor|exact H3].
Qed.

Lemma NShape_trans : forall m a b c, NShape m a b -> NShape m b c -> NShape m a c.
Proof.
  intros m a b c (A1 & A2 & e1 & A4 & A5 & A6) (B1 & B2 & e2 & B4 & B5 & B6).
  split; [congruence|]. split; [congruence|]. exists (e1 ++ e2). split; [|split].
  - rewrite B4, A4, A1, A2, flat_map_app, rev_app_distr, app_assoc. reflexivity.
  - apply Forall_app. split; assumption.
  - eapply run_trace_app; eauto.
Qed.

Definition to_nq (es : list entry) : list nev :=
  flat_map (fun e => match e with EQuery v c => [NQ v c] | _ => [] end) es.

Lemma to_nq_render : forall m ls obs es, queryb es = true -> flat_map (nrender m ls obs) (to_nq es) = es.
Proof.
  intros m ls obs es. induction es as [|e es IH]; intro H; [reflexivity|].
  cbn in H. apply andb_true_iff in H. destruct H as [H1 H2].
  destruct e; try discriminate H1. unfold to_nq. cbn [flat_map app]. fold (to_nq es).
  cbn [nrender app]. rewrite (IH H2). reflexivity.
Qed.

Lemma to_nq_flag : forall es, Forall nflag_ok (to_nq es).
Proof.
  induction es as [|e es IH]; [constructor|]. unfold to_nq. cbn [flat_map]. fold (to_nq es).
  destruct e; cbn; try exact IH. constructor; [exact I|exact IH].
Qed.

Lemma to_nq_run : forall es r, run_trace r (to_nq es) r.
Proof.
  induction es as [|e es IH]; intro r; [reflexivity|]. unfold to_nq. cbn [flat_map]. fold (to_nq es).
  destruct e; cbn; apply IH.
Qed.

Theorem NShape_qframe : forall m, qframe (NShape m).
Proof.
  intro m.
  constructor;
    try (intros; try (match goal with |- fpres _ _ => intros ? ? ? HH; inversion HH; subst; clear HH end);
         apply NShape_pure; reflexivity).
  - apply NShape_trans.
  - intros es Hq s u s' HH. inversion HH; subst; clear HH. split; [reflexivity|]. split; [reflexivity|].
    exists (to_nq es). cbn. rewrite to_nq_render by exact Hq. split; [reflexivity|].
    split; [apply to_nq_flag|apply to_nq_run].
Qed.

Section ShapeBlock.
  Variable tasks : list task.
  Variable env : envcfg.
  Variable Q : quiet_env env.
  Notation m := (ec_mutate env).

  (* one notification is one group *)
  Lemma nu_body_shape : forall er, quiet_er env er -> nu_ok (NShape m) (nu_body er).
  Proof.
    intros er Her k ai b s u s' H Hf. apply (nu_body_quiet env er Her) in H. destruct H as [[a Ha] ->].
    destruct (nu_pure_spec env k ai b s a Ha) as (L1 & L2 & L3).
    pose proof L3 as (_ & _ & _ & _ & _ & _ & _ & _ & _ & _ & _ & _ & E1 & E2 & _).
    split; [exact E1|]. split; [exact E2|].
    exists [NNot (notif_of s k a) b (ns_running s)]. split; [|split].
    - rewrite L1. cbn [flat_map nrender notif_of n_kind n_name n_id]. rewrite app_nil_r. reflexivity.
    - constructor; [|constructor]. cbn. apply Hf. exact Ha.
    - cbn. split; [reflexivity|exact L2].
  Qed.

  Definition shape_block := qframe_block (NShape_qframe m) tasks env Q nu_body_shape.

  (* the two entry points *)
  Theorem sched_fire_event_shape : forall f ev s b s',
      sched_fire_event tasks env f ev s = Ok (b, s') -> NShape m s s'.
  Proof.
    intros f ev s b s' H.
    exact (proj1 (proj2 (proj2 (proj2 (proj2 (proj2 (proj2 (proj2 (shape_block f)))))))) ev s b s' H).
  Qed.

  Theorem evaluate_shape : forall f s u s', evaluate tasks env f s = Ok (u, s') -> NShape m s s'.
  Proof. intros f s u s' H. exact (proj1 (shape_block f) s u s' H). Qed.

  Theorem run_cb_shape : forall f c s u s', run_cb tasks env f c s = Ok (u, s') -> NShape m s s'.
  Proof. intros f c s u s' H. exact (proj1 (proj2 (shape_block f)) c s u s' H). Qed.
End ShapeBlock.

(* =========================================================================== *)
(* 3c. the public API and scripts                                                *)
(* =========================================================================== *)

(* one API call, seen from outside: [run] is Scheduler.running before the call *)
Definition ncall_shape (m : nat) (ls : list (nkind * nat)) (obs : list nat) (run : bool)
           (c : apicall) (r : callrec) : Prop :=
  (exists evs r0, cr_log r = flat_map (nrender m ls obs) evs /\ Forall nflag_ok evs /\
                  (c = AStart \/ r0 = run) /\ run_trace r0 evs (cr_running r))
  /\ (is_admin c = true -> cr_log r = [] /\ cr_running r = run)
  /\ (forall k l, c = ARegister k l ->
                  cr_ret r = negb (existsb (fun p => nkind_eqb (fst p) k && Nat.eqb (snd p) l) ls)).

Fixpoint nshape_run (m : nat) (ls : list (nkind * nat)) (obs : list nat) (run : bool)
         (cs : list apicall) (tr : list callrec) : Prop :=
  match cs, tr with
  | [], [] => True
  | c :: cs', r :: tr' =>
    ncall_shape m ls obs run c r /\ nshape_run m (next_ls ls c) (next_obs obs c) (cr_running r) cs' tr'
  | _, _ => False
  end.

Section ShapeApi.
  Variable tasks : list task.
  Variable env : envcfg.
  Variable Q : quiet_env env.
  Notation m := (ec_mutate env).

  Lemma NShape_call : forall s0 s' c b run,
      NShape m s0 s' -> ns_log s0 = [] -> (c = AStart \/ ns_running s0 = run) -> is_admin c = false ->
      ncall_shape m (ns_ls s0) (ns_obs s0) run c (net_observe b s')
      /\ ns_ls s' = ns_ls s0 /\ ns_obs s' = ns_obs s0.
  Proof.
    intros s0 s' c b run (H1 & H2 & evs & H3 & H4 & H5) Hl Hr Ha.
    split; [|split; assumption]. split; [|split].
    - exists evs, (ns_running s0). cbn [cr_log cr_running net_observe].
      rewrite H3, Hl, app_nil_r, rev_involutive. repeat split; auto.
    - intro X. congruence.
    - intros k l ->. discriminate Ha.
  Qed.

  Lemma nshape_admin : forall s c b s1,
      ns_log s1 = [] -> ns_running s1 = ns_running s ->
      (forall k l, c = ARegister k l ->
                   b = negb (existsb (fun p => nkind_eqb (fst p) k && Nat.eqb (snd p) l) (ns_ls s))) ->
      ncall_shape m (ns_ls s) (ns_obs s) (ns_running s) c (net_observe b s1).
  Proof.
    intros s c b s1 Hl Hr Hb. split; [|split].
    - exists [], (ns_running s). cbn [cr_log cr_running net_observe]. rewrite Hl.
      split; [reflexivity|]. split; [constructor|]. split; [right; reflexivity|exact Hr].
    - intros _. cbn [cr_log cr_running net_observe]. rewrite Hl. split; [reflexivity|exact Hr].
    - intros k l E. cbn [cr_ret net_observe]. exact (Hb k l E).
  Qed.

  Theorem net_api_shape : forall f s c b s',
      net_api_call tasks env f s c = Ok (b, s') ->
      ncall_shape m (ns_ls s) (ns_obs s) (ns_running s) c (net_observe b s')
      /\ ns_ls s' = next_ls (ns_ls s) c /\ ns_obs s' = next_obs (ns_obs s) c.
  Proof.
    intros f s c b s' H. unfold net_api_call in H. cbv zeta in H.
    destruct c as [|id| |k l|o|o].
    - change (ns_awaited (s <| ns_log := [] |>)) with (ns_awaited s) in H.
      destruct (existsb (event_eqb EvStart) (ns_awaited s)).
      + destruct (sched_fire_event tasks env f EvStart (s <| ns_log := [] |> <| ns_running := true |>))
          as [[r s1]| | |] eqn:E; try discriminate H. okinv H.
        apply (sched_fire_event_shape tasks env Q) in E.
        eapply NShape_call in E; [exact E|reflexivity|left; reflexivity|reflexivity].
      + okinv H. split; [|split; reflexivity].
        apply nshape_admin; [reflexivity|reflexivity|intros; discriminate].
    - apply (sched_fire_event_shape tasks env Q) in H.
      eapply NShape_call in H; [exact H|reflexivity|right; reflexivity|reflexivity].
    - apply (sched_fire_event_shape tasks env Q) in H.
      eapply NShape_call in H; [exact H|reflexivity|right; reflexivity|reflexivity].
    - change (ns_ls (s <| ns_log := [] |>)) with (ns_ls s) in H. cbn [next_ls next_obs].
      destruct (existsb (fun p => nkind_eqb (fst p) k && Nat.eqb (snd p) l) (ns_ls s)) eqn:Ex; okinv H.
      + split; [|split; reflexivity].
        apply nshape_admin; [reflexivity|reflexivity|]. intros k0 l0 E. inversion E; subst. rewrite Ex. reflexivity.
      + split; [|split; reflexivity].
        apply nshape_admin; [reflexivity|reflexivity|]. intros k0 l0 E. inversion E; subst. rewrite Ex. reflexivity.
    - okinv H. split; [|split; reflexivity].
      apply nshape_admin; [reflexivity|reflexivity|intros; discriminate].
    - change (ns_obs (s <| ns_log := [] |>)) with (ns_obs s) in H. cbn [next_ls next_obs].
      destruct (remove_first (Nat.eqb o) (ns_obs s)) as [l|]; [|discriminate H]. okinv H.
      split; [|split; reflexivity].
      apply nshape_admin; [reflexivity|reflexivity|intros; discriminate].
  Qed.

  (* the analogue of RefShape.shape_run_ref on the faithful model *)
  Theorem net_shape_run : forall f cs s tr,
      net_run_script tasks env f s cs = Ok tr ->
      nshape_run m (ns_ls s) (ns_obs s) (ns_running s) cs tr.
  Proof.
    intros f cs. induction cs as [|c cs IH]; intros s tr H; cbn [net_run_script] in H.
    - okinv H. exact I.
    - destruct (net_api_call tasks env f s c) as [[b s1]| | |] eqn:E; cbn [rbind] in H; try discriminate H.
      destruct (net_run_script tasks env f s1 cs) as [t| | |] eqn:E2; cbn [rbind] in H; try discriminate H.
      okinv H. destruct (net_api_shape _ _ _ _ _ E) as (S1 & S2 & S3).
      cbn [nshape_run]. split; [exact S1|]. rewrite <- S2, <- S3.
      change (cr_running (net_observe b s1)) with (ns_running s1). apply IH. exact E2.
  Qed.
End ShapeApi.

(* =========================================================================== *)
(* 3d. no mutation: the rendering is RefShape's                                  *)
(* =========================================================================== *)
Definition to_aev (e : nev) : aev :=
  match e with NNot n flag r => ANot n flag r | NQ v c => AQ v c end.

Theorem nrender_0 : forall ls obs e, nrender 0 ls obs e = render ls obs (to_aev e).
Proof. intros ls obs [n flag r|v c]; cbn; [rewrite render_fns_0|]; reflexivity. Qed.

Theorem nrender_0_log : forall ls obs evs,
    flat_map (nrender 0 ls obs) evs = flat_map (render ls obs) (map to_aev evs).
Proof.
  intros ls obs evs. induction evs as [|e evs IH]; [reflexivity|]. cbn [flat_map map]. rewrite nrender_0, IH. reflexivity.
Qed.

(* the finished notifications are never mutated: their groups are RefShape's for every engine *)
Theorem nrender_finished : forall m ls obs n flag r,
    n_kind n = TF \/ n_kind n = SF -> nrender m ls obs (NNot n flag r) = render ls obs (ANot n flag r).
Proof. intros. cbn. rewrite render_fns_finished by assumption. reflexivity. Qed.

(* the block with an engine that does not mutate, in RefShape.Shape's form *)
Theorem NShape_0_render : forall s s',
    NShape 0 s s' ->
    ns_ls s' = ns_ls s /\ ns_obs s' = ns_obs s /\
    exists evs : list aev, ns_log s' = rev (flat_map (render (ns_ls s) (ns_obs s)) evs) ++ ns_log s.
Proof.
  intros s s' (H1 & H2 & evs & H3 & _). split; [exact H1|]. split; [exact H2|].
  exists (map to_aev evs). rewrite H3, nrender_0_log. reflexivity.
Qed.

Theorem sched_fire_event_shape_0 : forall tasks env f ev s b s',
    quiet_env env -> ec_mutate env = 0 ->
    sched_fire_event tasks env f ev s = Ok (b, s') ->
    ns_ls s' = ns_ls s /\ ns_obs s' = ns_obs s /\
    exists evs : list aev, ns_log s' = rev (flat_map (render (ns_ls s) (ns_obs s)) evs) ++ ns_log s.
Proof.
  intros tasks env f ev s b s' Q M H. apply (sched_fire_event_shape tasks env Q) in H. rewrite M in H.
  apply NShape_0_render. exact H.
Qed.

Theorem evaluate_shape_0 : forall tasks env f s u s',
    quiet_env env -> ec_mutate env = 0 ->
    evaluate tasks env f s = Ok (u, s') ->
    ns_ls s' = ns_ls s /\ ns_obs s' = ns_obs s /\
    exists evs : list aev, ns_log s' = rev (flat_map (render (ns_ls s) (ns_obs s)) evs) ++ ns_log s.
Proof.
  intros tasks env f s u s' Q M H. apply (evaluate_shape tasks env Q) in H. rewrite M in H.
  apply NShape_0_render. exact H.
Qed.

(* =========================================================================== *)
(* 4. C20 and C17 read off the shape                                             *)
(* =========================================================================== *)

(* ---- one group ---- *)

(* C20: the functions invoked for one notification are exactly the functions registered for
   its kind, each once, in registration order, before any observer entry; all are told the same
   entity and sample the same [running] *)
Theorem C20_group : forall m ls obs n flag r,
    exists fns os,
      nrender m ls obs (NNot n flag r) = fns ++ os /\
      flat_map fn_of fns = listeners_of (n_kind n) ls /\
      List.length fns = List.length (listeners_of (n_kind n) ls) /\
      Forall (fun e => exists l n', e = ENotif l n' r /\ same_entity n n') fns /\
      os = map (fun o => EObs o (n_kind n) (n_name n) (n_id n) flag) obs.
Proof.
  intros m ls obs n flag r.
  exists (render_fns m n r (listeners_of (n_kind n) ls)), (render_obs (n_kind n) (n_name n) (n_id n) flag obs).
  split; [reflexivity|]. split; [apply render_fns_functions|]. split; [apply render_fns_length|].
  split; [apply render_fns_entity|reflexivity].
Qed.

(* the delivered list: identical for an engine that does not mutate, for finished
   notifications, and when function 0 is not registered for the kind; otherwise identical up
   to function 0 and its hostile image behind it *)
Theorem C20_group_params : forall m ls obs n flag r,
    NoDup ls ->
    let L := listeners_of (n_kind n) ls in
    (m = 0 \/ n_kind n = TF \/ n_kind n = SF \/ ~ In 0 L ->
     nrender m ls obs (NNot n flag r) = render ls obs (ANot n flag r)) /\
    (In 0 L -> exists L1 L2, L = L1 ++ 0 :: L2 /\ ~ In 0 L1 /\ ~ In 0 L2 /\
                             nrender m ls obs (NNot n flag r) =
                             (map (fun l => ENotif l n r) L1 ++ ENotif 0 n r
                                  :: map (fun l => ENotif l (mutate_notif m n) r) L2)
                             ++ map (fun o => EObs o (n_kind n) (n_name n) (n_id n) flag) obs).
Proof.
  intros m ls obs n flag r N L. split.
  - intros [->|[H|[H|H]]]; cbn [nrender render]; fold L.
    + rewrite render_fns_0. reflexivity.
    + rewrite render_fns_finished by (left; exact H). reflexivity.
    + rewrite render_fns_finished by (right; exact H). reflexivity.
    + rewrite render_fns_no0 by exact H. reflexivity.
  - intro H0. destruct (NoDup_split_0 L (NoDup_listeners _ _ N) H0) as (L1 & L2 & E & N1 & N2).
    exists L1, L2. split; [exact E|]. split; [exact N1|]. split; [exact N2|].
    cbn [nrender]. fold L. rewrite E, render_fns_split by assumption. reflexivity.
Qed.

(* ---- what one registered function / one observer sees ---- *)
Definition ent (n : notif) : nkind * name * site * nat * option nat :=
  (n_kind n, n_name n, n_site n, n_id n, n_ctx n).

(* the notifications of kind k delivered to registered function l *)
Definition seen (l : nat) (k : nkind) (log : list entry) : list (nkind * name * site * nat * option nat) :=
  flat_map (fun e => match e with
                     | ENotif l' n _ => if Nat.eqb l l' && nkind_eqb (n_kind n) k then [ent n] else []
                     | _ => [] end) log.

(* the notifications of kind k that happened *)
Definition told (k : nkind) (evs : list nev) : list (nkind * name * site * nat * option nat) :=
  flat_map (fun e => match e with
                     | NNot n _ _ => if nkind_eqb (n_kind n) k then [ent n] else []
                     | NQ _ _ => [] end) evs.

Lemma seen_app : forall l k a b, seen l k (a ++ b) = seen l k a ++ seen l k b.
Proof. intros. apply flat_map_app. Qed.

Lemma ent_mutate : forall m n, ent (mutate_notif m n) = ent n.
Proof. intros m n. unfold mutate_notif. destruct (n_kind n) eqn:E; unfold ent; cbn; rewrite ?E; reflexivity. Qed.
Lemma kind_mutate : forall m n, n_kind (mutate_notif m n) = n_kind n.
Proof. intros m n. unfold mutate_notif. destruct (n_kind n) eqn:E; cbn; rewrite ?E; reflexivity. Qed.

Lemma seen_fns : forall m l k r L n,
    seen l k (render_fns m n r L) =
    if nkind_eqb (n_kind n) k then repeat (ent n) (count_occ Nat.eq_dec L l) else [].
Proof.
  intros m l k r. induction L as [|l' L IH]; intro n; cbn [render_fns].
  - cbn. destruct (nkind_eqb (n_kind n) k); reflexivity.
  - change (seen l k (ENotif l' n r :: ?x)) with
        ((if Nat.eqb l l' && nkind_eqb (n_kind n) k then [ent n] else []) ++ seen l k x).
    rewrite IH. assert (X : ent (if Nat.eqb l' 0 then mutate_notif m n else n) = ent n)
      by (destruct (Nat.eqb l' 0); [apply ent_mutate|reflexivity]).
    assert (Y : n_kind (if Nat.eqb l' 0 then mutate_notif m n else n) = n_kind n)
      by (destruct (Nat.eqb l' 0); [apply kind_mutate|reflexivity]).
    rewrite X, Y. destruct (nkind_eqb (n_kind n) k); [|rewrite andb_false_r; reflexivity].
    rewrite andb_true_r. destruct (Nat.eq_dec l' l) as [->|Hne].
    + rewrite Nat.eqb_refl, count_occ_cons_eq by reflexivity. reflexivity.
    + rewrite count_occ_cons_neq by exact Hne. apply not_eq_sym in Hne. apply Nat.eqb_neq in Hne. rewrite Hne. reflexivity.
Qed.

Lemma seen_obs : forall l k k' nm id flag obs, seen l k (render_obs k' nm id flag obs) = [].
Proof. intros. induction obs as [|o obs IH]; [reflexivity|exact IH]. Qed.

Lemma In_listeners : forall k l ls, In (k, l) ls -> In l (listeners_of k ls).
Proof.
  intros k l ls H. unfold listeners_of. apply in_map_iff. exists (k, l). split; [reflexivity|].
  apply filter_In. split; [exact H|]. cbn. apply nkind_eqb_refl.
Qed.

Lemma listeners_In : forall k l ls, In l (listeners_of k ls) -> In (k, l) ls.
Proof.
  intros k l ls H. unfold listeners_of in H. apply in_map_iff in H. destruct H as ([k' l'] & H1 & H2).
  apply filter_In in H2. destruct H2 as [H2 H3]. cbn in *. apply nkind_eqb_eq in H3. subst. exact H2.
Qed.

(* C20, per function: a function registered for kind k is invoked exactly once for every
   notification of kind k, in the order in which they happen *)
Theorem seen_registered : forall m ls obs l k evs,
    NoDup ls -> In (k, l) ls -> seen l k (flat_map (nrender m ls obs) evs) = told k evs.
Proof.
  intros m ls obs l k evs N Hl. induction evs as [|e evs IH]; [reflexivity|].
  cbn [flat_map told]. rewrite seen_app, IH. f_equal.
  destruct e as [n flag r|v c]; [|reflexivity]. cbn [nrender]. rewrite seen_app, seen_obs, app_nil_r, seen_fns.
  destruct (nkind_eqb (n_kind n) k) eqn:Ek; [|reflexivity]. apply nkind_eqb_eq in Ek. rewrite Ek.
  assert (C : count_occ Nat.eq_dec (listeners_of k ls) l = 1).
  { apply NoDup_count_occ'; [apply NoDup_listeners; exact N|apply In_listeners; exact Hl]. }
  rewrite C. reflexivity.
Qed.

(* and a function that is not registered for the kind is never invoked for it *)
Theorem seen_unregistered : forall m ls obs l k evs,
    ~ In (k, l) ls -> seen l k (flat_map (nrender m ls obs) evs) = [].
Proof.
  intros m ls obs l k evs Hl. induction evs as [|e evs IH]; [reflexivity|].
  cbn [flat_map]. rewrite seen_app, IH, app_nil_r.
  destruct e as [n flag r|v c]; [|reflexivity]. cbn [nrender]. rewrite seen_app, seen_obs, app_nil_r, seen_fns.
  destruct (nkind_eqb (n_kind n) k) eqn:Ek; [|reflexivity]. apply nkind_eqb_eq in Ek. rewrite Ek.
  assert (C : count_occ Nat.eq_dec (listeners_of k ls) l = 0).
  { apply count_occ_not_In. intro Hi. apply Hl. apply listeners_In. exact Hi. }
  rewrite C. reflexivity.
Qed.

(* the entries observer o received *)
Definition obs_of (o : nat) (log : list entry) : list (nkind * name * nat * bool) :=
  flat_map (fun e => match e with
                     | EObs o' k nm id f => if Nat.eqb o o' then [(k, nm, id, f)] else []
                     | _ => [] end) log.

(* all notifications that happened, as an observer is told them *)
Definition announced (evs : list nev) : list (nkind * name * nat * bool) :=
  flat_map (fun e => match e with
                     | NNot n flag _ => [(n_kind n, n_name n, n_id n, flag)]
                     | NQ _ _ => [] end) evs.

Lemma obs_of_app : forall o a b, obs_of o (a ++ b) = obs_of o a ++ obs_of o b.
Proof. intros. apply flat_map_app. Qed.

Lemma obs_of_fns : forall o m n r L, obs_of o (render_fns m n r L) = [].
Proof. intros o m n r L. revert n. induction L as [|l L IH]; intro n; [reflexivity|]. cbn [render_fns]. apply IH. Qed.

Lemma obs_of_obs : forall o k nm id flag obs,
    obs_of o (render_obs k nm id flag obs) = repeat (k, nm, id, flag) (count_occ Nat.eq_dec obs o).
Proof.
  intros o k nm id flag obs. induction obs as [|o' obs IH]; [reflexivity|].
  change (obs_of o (render_obs k nm id flag (o' :: obs)))
    with ((if Nat.eqb o o' then [(k, nm, id, flag)] else []) ++ obs_of o (render_obs k nm id flag obs)).
  rewrite IH. destruct (Nat.eq_dec o' o) as [->|Hne].
  - rewrite Nat.eqb_refl, count_occ_cons_eq by reflexivity. reflexivity.
  - rewrite count_occ_cons_neq by exact Hne. apply not_eq_sym in Hne. apply Nat.eqb_neq in Hne. rewrite Hne. reflexivity.
Qed.

(* C17, per observer: an observer attached once receives exactly one entry per notification,
   in order, naming kind, name, identifier and the order-finished flag of that notification *)
Theorem obs_of_attached : forall m ls obs o evs,
    count_occ Nat.eq_dec obs o = 1 -> obs_of o (flat_map (nrender m ls obs) evs) = announced evs.
Proof.
  intros m ls obs o evs C. induction evs as [|e evs IH]; [reflexivity|].
  cbn [flat_map announced]. rewrite obs_of_app, IH. f_equal.
  destruct e as [n flag r|v c]; [|reflexivity]. cbn [nrender]. rewrite obs_of_app, obs_of_fns, obs_of_obs, C. reflexivity.
Qed.

Theorem obs_of_detached : forall m ls obs o evs,
    ~ In o obs -> obs_of o (flat_map (nrender m ls obs) evs) = [].
Proof.
  intros m ls obs o evs C. induction evs as [|e evs IH]; [reflexivity|].
  cbn [flat_map]. rewrite obs_of_app, IH, app_nil_r.
  destruct e as [n flag r|v c]; [|reflexivity]. cbn [nrender]. rewrite obs_of_app, obs_of_fns, obs_of_obs.
  rewrite (proj1 (count_occ_not_In Nat.eq_dec obs o) C). reflexivity.
Qed.

(* the observers' entries and the functions' entries are about the same notifications: what an
   observer is told about kind k is what a function registered for kind k is told *)
Definition ent_obs (flagged : nkind * name * nat * bool) : nkind * name * nat :=
  let '(k, nm, id, _) := flagged in (k, nm, id).
Definition ent_fn (e : nkind * name * site * nat * option nat) : nkind * name * nat :=
  let '(k, nm, _, id, _) := e in (k, nm, id).
Definition of_kind (k : nkind) (x : nkind * name * nat * bool) : bool :=
  let '(k', _, _, _) := x in nkind_eqb k' k.

Lemma announced_told : forall k evs,
    map ent_obs (filter (of_kind k) (announced evs)) = map ent_fn (told k evs).
Proof.
  intros k evs. induction evs as [|e evs IH]; [reflexivity|].
  unfold announced, told in *. cbn [flat_map]. rewrite filter_app, !map_app, IH. f_equal.
  destruct e as [n flag r|v c]; [|reflexivity]. cbn. destruct (nkind_eqb (n_kind n) k); reflexivity.
Qed.

Theorem observer_matches_function : forall m ls obs o l k evs,
    NoDup ls -> In (k, l) ls -> count_occ Nat.eq_dec obs o = 1 ->
    map ent_obs (filter (of_kind k) (obs_of o (flat_map (nrender m ls obs) evs))) =
    map ent_fn (seen l k (flat_map (nrender m ls obs) evs)).
Proof.
  intros. rewrite obs_of_attached by assumption. rewrite (seen_registered m ls obs l k evs) by assumption.
  apply announced_told.
Qed.

(* the flag: set exactly on the finished notification of a task named productionTask *)
Lemma announced_flag : forall evs, Forall nflag_ok evs ->
    Forall (fun x => let '(k, nm, _, f) := x in f = nkind_eqb k TF && Nat.eqb nm production_task) (announced evs).
Proof.
  intros evs H. induction H as [|e evs He H IH]; [constructor|].
  unfold announced in *. cbn [flat_map]. apply Forall_app. split; [|exact IH].
  destruct e as [n flag r|v c]; [|constructor]. constructor; [exact He|constructor].
Qed.

(* ---- API calls and scripts ---- *)
Lemma next_ls_NoDup : forall ls c, NoDup ls -> NoDup (next_ls ls c).
Proof.
  intros ls c N. destruct c; cbn [next_ls]; try exact N.
  destruct (existsb (fun p => nkind_eqb (fst p) k && Nat.eqb (snd p) l) ls) eqn:E; [exact N|].
  apply NoDup_snoc; [exact N|apply register_fresh; exact E].
Qed.

Lemma next_ls_In : forall ls c x, In x ls -> In x (next_ls ls c).
Proof.
  intros ls c x H. destruct c; cbn [next_ls]; try exact H.
  destruct (existsb (fun p => nkind_eqb (fst p) k && Nat.eqb (snd p) l) ls); [exact H|].
  apply in_app_iff. left. exact H.
Qed.

Lemma remove_first_count_other : forall (o o' : nat) obs l,
    o' <> o -> remove_first (Nat.eqb o') obs = Some l -> count_occ Nat.eq_dec l o = count_occ Nat.eq_dec obs o.
Proof.
  intros o o' obs. induction obs as [|x obs IH]; intros l Hne H; cbn [remove_first] in H; [discriminate H|].
  destruct (Nat.eqb o' x) eqn:E.
  - inversion H; subst. apply Nat.eqb_eq in E. subst x. rewrite count_occ_cons_neq by exact Hne. reflexivity.
  - destruct (remove_first (Nat.eqb o') obs) as [l0|]; [|discriminate H]. inversion H; subst.
    destruct (Nat.eq_dec x o) as [->|Hx].
    + rewrite !count_occ_cons_eq by reflexivity. f_equal. apply IH; [exact Hne|reflexivity].
    + rewrite !count_occ_cons_neq by exact Hx. apply IH; [exact Hne|reflexivity].
Qed.

(* the calls that attach or detach observer o *)
Definition touches (o : nat) (c : apicall) : bool :=
  match c with AAttach o' | ADetach o' => Nat.eqb o o' | _ => false end.

Lemma next_obs_count : forall obs c o,
    touches o c = false -> count_occ Nat.eq_dec (next_obs obs c) o = count_occ Nat.eq_dec obs o.
Proof.
  intros obs c o H. destruct c as [| | | |o'|o']; cbn [next_obs]; try reflexivity; cbn [touches] in H;
    apply Nat.eqb_neq in H.
  - rewrite count_occ_app. cbn. destruct (Nat.eq_dec o' o); [congruence|lia].
  - destruct (remove_first (Nat.eqb o') obs) as [l|] eqn:E; [|reflexivity].
    eapply remove_first_count_other; [|exact E]. congruence.
Qed.

Section TraceCorollaries.
  Variable tasks : list task.
  Variable env : envcfg.
  Variable Q : quiet_env env.
  Notation m := (ec_mutate env).

  (* C20 and C17 for one API call: there is ONE sequence of notifications such that the log
     is its rendering; every function registered for a kind is invoked exactly once for each
     notification of that kind, in order; a function not registered for it never; every
     observer attached once receives exactly one entry per notification, in order; an
     observer that is not attached none; the order-finished flag is carried exactly by the
     finished notification of the production task *)
  Theorem net_call_C20_C17 : forall f s c b s',
      NoDup (ns_ls s) ->
      net_api_call tasks env f s c = Ok (b, s') ->
      let log := cr_log (net_observe b s') in
      exists evs,
        log = flat_map (nrender m (ns_ls s) (ns_obs s)) evs /\
        Forall nflag_ok evs /\
        (forall k l, In (k, l) (ns_ls s) -> seen l k log = told k evs) /\
        (forall k l, ~ In (k, l) (ns_ls s) -> seen l k log = []) /\
        (forall o, count_occ Nat.eq_dec (ns_obs s) o = 1 -> obs_of o log = announced evs) /\
        (forall o, ~ In o (ns_obs s) -> obs_of o log = []).
  Proof.
    intros f s c b s' N H log. destruct (net_api_shape tasks env Q _ _ _ _ _ H) as (((evs & r0 & E & F & _) & _) & _).
    exists evs. subst log. rewrite E. split; [reflexivity|]. split; [exact F|].
    split; [intros; apply seen_registered; assumption|].
    split; [intros; apply seen_unregistered; assumption|].
    split; [intros; apply obs_of_attached; assumption|].
    intros; apply obs_of_detached; assumption.
  Qed.

  (* C20 over a whole history: two functions registered for the same kind are told exactly
     the same sequence of entities -- the statement that fails without [quiet_env] *)
  Theorem net_C20_same_sequence : forall f cs s tr k l l',
      NoDup (ns_ls s) -> In (k, l) (ns_ls s) -> In (k, l') (ns_ls s) ->
      net_run_script tasks env f s cs = Ok tr ->
      seen l k (flat_map cr_log tr) = seen l' k (flat_map cr_log tr).
  Proof.
    intros f cs. induction cs as [|c cs IH]; intros s tr k l l' N H1 H2 H; cbn [net_run_script] in H.
    - okinv H. reflexivity.
    - destruct (net_api_call tasks env f s c) as [[b s1]| | |] eqn:E; cbn [rbind] in H; try discriminate H.
      destruct (net_run_script tasks env f s1 cs) as [t| | |] eqn:E2; cbn [rbind] in H; try discriminate H.
      okinv H. cbn [flat_map]. rewrite !seen_app.
      destruct (net_call_C20_C17 _ _ _ _ _ N E) as (evs & _ & _ & S1 & _).
      rewrite (S1 k l H1), (S1 k l' H2). f_equal.
      destruct (net_api_shape tasks env Q _ _ _ _ _ E) as (_ & L1 & _).
      apply (IH s1 t k l l'); [rewrite L1; apply next_ls_NoDup; exact N|rewrite L1; apply next_ls_In; exact H1
                               |rewrite L1; apply next_ls_In; exact H2|exact E2].
  Qed.

  (* C17 over a whole history: an observer that stays attached (once) is told, kind by kind,
     exactly the entities a function registered for that kind is told -- the statement that
     fails without [quiet_env] *)
  Theorem net_C17_observer_matches_function : forall f cs s tr k l o,
      NoDup (ns_ls s) -> In (k, l) (ns_ls s) -> count_occ Nat.eq_dec (ns_obs s) o = 1 ->
      forallb (fun c => negb (touches o c)) cs = true ->
      net_run_script tasks env f s cs = Ok tr ->
      map ent_obs (filter (of_kind k) (obs_of o (flat_map cr_log tr))) =
      map ent_fn (seen l k (flat_map cr_log tr)).
  Proof.
    intros f cs. induction cs as [|c cs IH]; intros s tr k l o N H1 H2 Ht H; cbn [net_run_script] in H.
    - okinv H. reflexivity.
    - destruct (net_api_call tasks env f s c) as [[b s1]| | |] eqn:E; cbn [rbind] in H; try discriminate H.
      destruct (net_run_script tasks env f s1 cs) as [t| | |] eqn:E2; cbn [rbind] in H; try discriminate H.
      okinv H. cbn [flat_map]. rewrite obs_of_app, seen_app, filter_app, !map_app.
      cbn [forallb] in Ht. apply andb_true_iff in Ht. destruct Ht as [Ht1 Ht2]. apply negb_true_iff in Ht1.
      destruct (net_call_C20_C17 _ _ _ _ _ N E) as (evs & _ & _ & S1 & _ & S2 & _).
      rewrite (S1 k l H1), (S2 o H2), announced_told. f_equal.
      destruct (net_api_shape tasks env Q _ _ _ _ _ E) as (_ & L1 & L2).
      apply (IH s1 t k l o); [rewrite L1; apply next_ls_NoDup; exact N|rewrite L1; apply next_ls_In; exact H1
                              |rewrite L2, next_obs_count by exact Ht1; exact H2|exact Ht2|exact E2].
  Qed.

  (* C17: over a whole history every entry an attached observer receives carries the
     order-finished flag iff it reports the end of a task named productionTask *)
  Theorem net_C17_flag : forall f cs s tr,
      net_run_script tasks env f s cs = Ok tr ->
      Forall (fun e => match e with
                       | EObs _ k nm _ flag => flag = nkind_eqb k TF && Nat.eqb nm production_task
                       | _ => True end) (flat_map cr_log tr).
  Proof.
    intros f cs. induction cs as [|c cs IH]; intros s tr H; cbn [net_run_script] in H.
    - okinv H. constructor.
    - destruct (net_api_call tasks env f s c) as [[b s1]| | |] eqn:E; cbn [rbind] in H; try discriminate H.
      destruct (net_run_script tasks env f s1 cs) as [t| | |] eqn:E2; cbn [rbind] in H; try discriminate H.
      okinv H. cbn [flat_map]. apply Forall_app. split; [|eapply IH; exact E2].
      destruct (net_api_shape tasks env Q _ _ _ _ _ E) as (((evs & r0 & E1 & F & _) & _) & _).
      rewrite E1. clear E1. induction F as [|e evs He F IHF]; [constructor|].
      cbn [flat_map]. apply Forall_app. split; [|exact IHF].
      destruct e as [n flag r|v c0]; [|constructor; [exact I|constructor]].
      cbn [nrender]. apply Forall_app. split.
      + eapply Forall_impl; [|apply render_fns_entity]. cbv beta. intros e (l' & n' & -> & _). exact I.
      + unfold render_obs. apply Forall_forall. intros e He'. apply in_map_iff in He'. destruct He' as (o & <- & _).
        exact He.
  Qed.
End TraceCorollaries.

(* =========================================================================== *)
(* 4b. from the constructor on: the cases the correspondence check runs          *)
(* =========================================================================== *)

(* the constructor leaves the registered functions, the observers and [running] as they are *)
Definition keep3 (s s' : NS) : Prop :=
  ns_ls s' = ns_ls s /\ ns_obs s' = ns_obs s /\ ns_running s' = ns_running s.

Theorem keep3_qframe : qframe keep3.
Proof.
  constructor;
    try (intros; try (match goal with |- fpres _ _ => intros ? ? ? HH; inversion HH; subst; clear HH end);
         unfold keep3; cbn; repeat split; reflexivity).
  unfold keep3. intros a b c H1 H2. intuition congruence.
Qed.

Theorem net_init_fields : forall tasks b s0,
    net_init tasks b = Ok s0 -> ns_ls s0 = default_listeners /\ ns_obs s0 = [] /\ ns_running s0 = false.
Proof.
  intros tasks b s0 H. unfold net_init in H.
  destruct (generate_petri_net tasks 200 (ns0 b)) as [[u s]| | |] eqn:E; try discriminate H. okinv H.
  apply (qp_generate_petri_net keep3_qframe) in E. exact E.
Qed.

(* a decidable sufficient condition for [quiet_env] on run cases *)
Definition quiet_case (c : runcase) : bool :=
  forallb negb (rc_imm c) && forallb (fun o => match o with None => true | Some _ => false end) (rc_react c).

Lemma nth_all_false : forall l k, forallb negb l = true -> nth k l false = false.
Proof.
  induction l as [|x l IH]; intros [|k] H; try reflexivity; cbn in H; apply andb_true_iff in H; destruct H as [H1 H2].
  - destruct x; [discriminate H1|reflexivity].
  - cbn. apply IH. exact H2.
Qed.

Lemma nth_all_none : forall (l : list (option nat)) k,
    forallb (fun o => match o with None => true | Some _ => false end) l = true -> nth k l None = None.
Proof.
  induction l as [|x l IH]; intros [|k] H; try reflexivity; cbn in H; apply andb_true_iff in H; destruct H as [H1 H2].
  - destruct x; [discriminate H1|reflexivity].
  - cbn. apply IH. exact H2.
Qed.

Theorem quiet_case_env : forall c, quiet_case c = true -> quiet_env (env_of c).
Proof.
  intros c H. unfold quiet_case in H. apply andb_true_iff in H. destruct H as [H1 H2]. split; intro k; cbn.
  - unfold imm_of. apply nth_all_false. exact H1.
  - apply nth_all_none. exact H2.
Qed.

(* the trace of every run case with a quiet engine has the shape *)
Theorem run_net_shape : forall c tr,
    quiet_env (env_of c) -> run_net c = Ok tr ->
    nshape_run (rc_mutate c) default_listeners [] false (rc_script c) tr.
Proof.
  intros c tr Q H. unfold run_net in H. destruct (rc_test_ids c); [|discriminate H].
  destruct (net_init (p_tasks (rc_prog c)) true) as [s0| | |] eqn:E; cbn [rbind] in H; try discriminate H.
  destruct (net_init_fields _ _ _ E) as (E1 & E2 & E3). rewrite <- E1, <- E2, <- E3.
  exact (net_shape_run _ (env_of c) Q _ _ _ _ H).
Qed.

Lemma NoDup_default_listeners : NoDup default_listeners.
Proof. unfold default_listeners. repeat (constructor; [cbn; intuition discriminate|]). constructor. Qed.

(* a script whose registrations come first: every function registered there is told, kind by
   kind, exactly the entities function 0 (the execution engine) is told *)
Theorem run_net_same_sequence : forall c tr regs rest k l,
    quiet_env (env_of c) -> rc_script c = regs ++ rest ->
    forallb is_admin regs = true ->
    In (k, l) (fold_left next_ls regs default_listeners) ->
    run_net c = Ok tr ->
    seen l k (flat_map cr_log tr) = seen 0 k (flat_map cr_log tr).
Proof.
  intros c tr regs rest k l Q Hs Ha Hl H. unfold run_net in H. destruct (rc_test_ids c); [|discriminate H].
  destruct (net_init (p_tasks (rc_prog c)) true) as [s0| | |] eqn:E; cbn [rbind] in H; try discriminate H.
  destruct (net_init_fields _ _ _ E) as (E1 & _ & _). rewrite Hs in H. clear Hs E.
  assert (N : NoDup (ns_ls s0)) by (rewrite E1; apply NoDup_default_listeners).
  assert (I0 : In (k, 0) (ns_ls s0)) by (rewrite E1; destruct k; cbn; auto).
  rewrite <- E1 in Hl. clear E1.
  revert s0 tr N I0 Hl H. induction regs as [|r regs IH]; intros s0 tr N I0 Hl H.
  - cbn in Hl. cbn [app] in H. eapply net_C20_same_sequence; eauto.
  - cbn [app net_run_script] in H. cbn [forallb] in Ha. apply andb_true_iff in Ha. destruct Ha as [Ha1 Ha2].
    destruct (net_api_call (p_tasks (rc_prog c)) (env_of c) net_fuel s0 r) as [[b s1]| | |] eqn:E;
      cbn [rbind] in H; try discriminate H.
    destruct (net_run_script (p_tasks (rc_prog c)) (env_of c) net_fuel s1 (regs ++ rest)) as [t| | |] eqn:E2;
      cbn [rbind] in H; try discriminate H.
    okinv H. destruct (net_api_shape _ _ Q _ _ _ _ _ E) as ((_ & A & _) & L1 & _).
    destruct (A Ha1) as [A1 _]. cbn [flat_map]. rewrite A1. cbn [app].
    apply (IH Ha2 s1 t); [rewrite L1; apply next_ls_NoDup; exact N|rewrite L1; apply next_ls_In; exact I0
                          |rewrite L1; exact Hl|exact E2].
Qed.

(* =========================================================================== *)
(* 5. non-vacuity, and the contrast without [quiet_env]                          *)
(* =========================================================================== *)

(* the program of Examples.v (all statement kinds, a parallel loop with run-time generation);
   a hostile engine (mode 1: every delivered list is extended) that completes nothing from
   inside notifications; function 5 is registered for service starts before the order starts, a
   refused second registration, function 6 for finished tasks and the observers 7 and 8 are
   added while the order runs, observer 7 is detached again *)
Definition ex_quiet : runcase :=
  {| rc_prog := rc_prog ex_case; rc_vals := rc_vals ex_case; rc_imm := [];
     rc_script := [ARegister SS 5; AStart; AAttach 7; AFinish 0; ARegister SS 5; AFinish 1; AFinish 2;
                   AFinish 3; AAttach 8; AFinish 4; ARegister TF 6; AFinish 5; ADetach 7; AFinish 6; AFinish 7;
                   AFinish 8; AFinish 9; AFinish 10; AJunk];
     rc_react := []; rc_react_all := false; rc_mutate := 1; rc_test_ids := true |}.

Lemma ex_quiet_env : quiet_env (env_of ex_quiet).
Proof. apply quiet_case_env. reflexivity. Qed.

(* the delivered lists of the service-started notifications, per function *)
Definition delivered_to (l : nat) (es : list entry) : list (list param) :=
  flat_map (fun e => match e with
                     | ENotif l' n _ => if Nat.eqb l l' && nkind_eqb (n_kind n) SS then [n_params n] else []
                     | _ => [] end) es.

Example shape_inhabited :
  exists tr, run_net ex_quiet = Ok tr /\
             nshape_run 1 default_listeners [] false (rc_script ex_quiet) tr /\
             List.length tr = 19 /\ existsb cr_final tr = true /\
             map cr_ret tr = [true; true; true; true; false; true; true; true; true; true; true; true; true; true;
                              true; true; true; true; false] /\
             let log := flat_map cr_log tr in
             (* functions 0 and 5: all 11 service starts, the same entities *)
             List.length (seen 0 SS log) = 11 /\ seen 5 SS log = seen 0 SS log /\
             (* function 5 is handed the lists function 0 has extended *)
             delivered_to 5 log = map (hostile 1) (delivered_to 0 log) /\
             (* function 6 was registered late: the last 3 of 5 finished tasks *)
             List.length (seen 0 TF log) = 5 /\ seen 6 TF log = skipn 2 (seen 0 TF log) /\
             (* the observers: attached mid-run, 7 detached again *)
             List.length (obs_of 7 log) = 16 /\ List.length (obs_of 8 log) = 18 /\
             existsb (fun x => let '(_, _, _, f) := x in f) (obs_of 8 log) = true.
Proof.
  destruct (run_net ex_quiet) as [tr| | |] eqn:E; try (vm_compute in E; discriminate E).
  exists tr. split; [reflexivity|]. split; [exact (run_net_shape ex_quiet tr ex_quiet_env E)|].
  vm_compute in E. inversion E; subst tr; clear E.
  split; [reflexivity|]. split; [reflexivity|]. split; [reflexivity|].
  cbv zeta. repeat (split; [vm_compute; reflexivity|]). vm_compute; reflexivity.
Qed.

(* ---- without [quiet_env] the statements are false ---- *)

(* NetIds.second_listener_case: a counting loop around one service, function 1 registered for
   service starts, the first start completed from inside function 0's notification.  The state
   after the registration: *)
Definition sl_tasks : list task := p_tasks (rc_prog second_listener_case).
Definition sl_state : NS :=
  match net_init sl_tasks true with
  | Ok s0 => match net_api_call sl_tasks (env_of second_listener_case) net_fuel s0 (ARegister SS 1) with
             | Ok (_, s1) => s1
             | _ => ns0 true
             end
  | _ => ns0 true
  end.

Lemma second_listener_not_quiet : ~ quiet_env (env_of second_listener_case).
Proof. intros [H _]. specialize (H 0). discriminate H. Qed.

(* C20 for arbitrary engines: two functions registered for the same kind are told the same
   sequence of entities *)
Definition C20_same_sequence_all_engines : Prop :=
  forall tasks env f cs s tr k l l',
    NoDup (ns_ls s) -> In (k, l) (ns_ls s) -> In (k, l') (ns_ls s) ->
    net_run_script tasks env f s cs = Ok tr ->
    seen l k (flat_map cr_log tr) = seen l' k (flat_map cr_log tr).

Theorem C20_same_sequence_all_engines_false : ~ C20_same_sequence_all_engines.
Proof.
  intro H.
  assert (X : exists tr, net_run_script sl_tasks (env_of second_listener_case) net_fuel sl_state [AStart] = Ok tr /\
                         seen 0 SS (flat_map cr_log tr) <> seen 1 SS (flat_map cr_log tr)).
  { eexists. split; [vm_compute; reflexivity|]. vm_compute. discriminate. }
  destruct X as (tr & X1 & X2). apply X2.
  apply (H _ _ _ _ _ _ SS 0 1) in X1; [exact X1| | |].
  - vm_compute. repeat (constructor; [cbn; intuition discriminate|]). constructor.
  - vm_compute. auto 10.
  - vm_compute. auto 10.
Qed.

(* NetIds.observer_case: the same program, observer 7 attached before the start *)
Definition oc_state : NS :=
  match net_init sl_tasks true with
  | Ok s0 => match net_api_call sl_tasks (env_of observer_case) net_fuel s0 (AAttach 7) with
             | Ok (_, s1) => s1
             | _ => ns0 true
             end
  | _ => ns0 true
  end.

Definition C17_observer_matches_all_engines : Prop :=
  forall tasks env f cs s tr k l o,
    NoDup (ns_ls s) -> In (k, l) (ns_ls s) -> count_occ Nat.eq_dec (ns_obs s) o = 1 ->
    forallb (fun c => negb (touches o c)) cs = true ->
    net_run_script tasks env f s cs = Ok tr ->
    map ent_obs (filter (of_kind k) (obs_of o (flat_map cr_log tr))) =
    map ent_fn (seen l k (flat_map cr_log tr)).

Theorem C17_observer_matches_all_engines_false : ~ C17_observer_matches_all_engines.
Proof.
  intro H.
  assert (X : exists tr, net_run_script sl_tasks (env_of observer_case) net_fuel oc_state [AStart] = Ok tr /\
                         map ent_obs (filter (of_kind SS) (obs_of 7 (flat_map cr_log tr))) <>
                         map ent_fn (seen 0 SS (flat_map cr_log tr))).
  { eexists. split; [vm_compute; reflexivity|]. vm_compute. discriminate. }
  destruct X as (tr & X1 & X2). apply X2.
  apply (H _ _ _ _ _ _ SS 0 7) in X1; [exact X1| | | |].
  - vm_compute. repeat (constructor; [cbn; intuition discriminate|]). constructor.
  - vm_compute. auto 10.
  - vm_compute. reflexivity.
  - reflexivity.
Qed.

(* =========================================================================== *)
(* 6. in RefShape's own vocabulary (engines that do not mutate)                  *)
(* =========================================================================== *)
(* RefShape.flag_ok says "finished notification of THE production task" (name productionTask
   and no enclosing task); scheduler.py -- and [nflag_ok] -- test the name only.  The two agree
   on traces in which nothing but the root is named productionTask: *)
Definition root_named (e : entry) : Prop :=
  match e with
  | ENotif _ n _ => n_name n = production_task -> n_ctx n = None
  | _ => True
  end.

Lemma ncall_shape_ref : forall ls obs run c r,
    (forall k, In (k, 0) ls) -> Forall root_named (cr_log r) ->
    ncall_shape 0 ls obs run c r -> call_shape ls obs c r.
Proof.
  intros ls obs run c r H0 Hr ((evs & r0 & E & F & _) & A & B). split; [|split].
  - exists (map to_aev evs). rewrite E, nrender_0_log. split; [reflexivity|].
    rewrite E in Hr. clear E A B. induction F as [|e evs He F IH]; [constructor|].
    cbn [flat_map] in Hr. apply Forall_app in Hr. destruct Hr as [Hr1 Hr2].
    cbn [map]. constructor; [|apply IH; exact Hr2].
    destruct e as [n flag r1|v c0]; [|exact I]. cbn [to_aev flag_ok]. cbn in He. rewrite He. f_equal.
    unfold is_prod. destruct (Nat.eqb (n_name n) production_task) eqn:En; [|reflexivity].
    apply Nat.eqb_eq in En.
    assert (X : In (ENotif 0 n r1) (nrender 0 ls obs (NNot n flag r1))).
    { cbn [nrender]. apply in_app_iff. left. rewrite render_fns_0. apply in_map_iff. exists 0. split; [reflexivity|].
      apply In_listeners. apply H0. }
    rewrite Forall_forall in Hr1. specialize (Hr1 _ X En). cbn in Hr1. rewrite Hr1. reflexivity.
  - intro H. apply A. exact H.
  - exact B.
Qed.

Lemma nshape_run_ref : forall cs tr ls obs run,
    (forall k, In (k, 0) ls) -> Forall root_named (flat_map cr_log tr) ->
    nshape_run 0 ls obs run cs tr -> shape_run ls obs cs tr.
Proof.
  induction cs as [|c cs IH]; intros [|r tr] ls obs run H0 Hr H; cbn [nshape_run shape_run] in *; try exact H.
  destruct H as [H1 H2]. cbn [flat_map] in Hr. apply Forall_app in Hr. destruct Hr as [Hr1 Hr2]. split.
  - eapply ncall_shape_ref; eauto.
  - eapply IH; [|exact Hr2|exact H2]. intro k. apply next_ls_In. apply H0.
Qed.

(* RefShape.shape_run, the statement proved for the reference semantics, on the faithful model *)
Theorem net_shape_run_ref : forall tasks env f cs s tr,
    quiet_env env -> ec_mutate env = 0 ->
    (forall k, In (k, 0) (ns_ls s)) ->
    net_run_script tasks env f s cs = Ok tr ->
    Forall root_named (flat_map cr_log tr) ->
    shape_run (ns_ls s) (ns_obs s) cs tr.
Proof.
  intros tasks env f cs s tr Q M H0 H Hr. apply (net_shape_run tasks env Q) in H. rewrite M in H.
  eapply nshape_run_ref; eauto.
Qed.

Theorem run_net_shape_ref : forall c tr,
    quiet_env (env_of c) -> rc_mutate c = 0 -> run_net c = Ok tr ->
    Forall root_named (flat_map cr_log tr) ->
    shape_run default_listeners [] (rc_script c) tr.
Proof.
  intros c tr Q M H Hr. apply (run_net_shape c tr Q) in H. rewrite M in H.
  eapply nshape_run_ref; [|exact Hr|exact H]. intros []; cbn; auto.
Qed.

(* the trace hypothesis is decidable: for a concrete case it is discharged by evaluation *)
Definition root_namedb (e : entry) : bool :=
  match e with
  | ENotif _ n _ => negb (Nat.eqb (n_name n) production_task)
                    || match n_ctx n with None => true | Some _ => false end
  | _ => true
  end.

Lemma root_namedb_spec : forall es, forallb root_namedb es = true -> Forall root_named es.
Proof.
  intros es H. rewrite forallb_forall in H. apply Forall_forall. intros e He. specialize (H e He).
  destruct e as [l n r| | | |]; try exact I. cbn in *. intro En. apply Nat.eqb_eq in En. rewrite En in H.
  cbn in H. destruct (n_ctx n); [discriminate H|reflexivity].
Qed.

Theorem run_net_shape_ref_checked : forall c tr,
    quiet_case c = true -> rc_mutate c = 0 -> run_net c = Ok tr ->
    forallb root_namedb (flat_map cr_log tr) = true ->
    shape_run default_listeners [] (rc_script c) tr.
Proof.
  intros c tr Q M H Hr. apply run_net_shape_ref; try assumption.
  - apply quiet_case_env. exact Q.
  - apply root_namedb_spec. exact Hr.
Qed.

(* =========================================================================== *)
(* 7. the executable monitors                                                    *)
(* =========================================================================== *)
(* Monitors.holds_C20 / holds_C17 group consecutive entries by EQUALITY of the whole
   notification, delivered list included.  On the faithful model a hostile engine changes the
   list between function 0 and the functions behind it, so with a second registered function
   both monitors REJECT the trace of [ex_quiet] (mode 1), although the trace has the shape;
   with the same script and no mutation they accept. *)
Definition ex_quiet0 : runcase :=
  {| rc_prog := rc_prog ex_quiet; rc_vals := rc_vals ex_quiet; rc_imm := [];
     rc_script := rc_script ex_quiet;
     rc_react := []; rc_react_all := false; rc_mutate := 0; rc_test_ids := true |}.

Example monitors_on_examples :
  (exists tr, run_net ex_quiet = Ok tr /\
              holds_C20 (rc_script ex_quiet) tr = false /\ holds_C17 (rc_script ex_quiet) tr = false) /\
  (exists tr, run_net ex_quiet0 = Ok tr /\
              holds_C20 (rc_script ex_quiet0) tr = true /\ holds_C17 (rc_script ex_quiet0) tr = true /\
              shape_run default_listeners [] (rc_script ex_quiet0) tr).
Proof.
  split.
  - eexists. split; [vm_compute; reflexivity|]. split; vm_compute; reflexivity.
  - destruct (run_net ex_quiet0) as [tr| | |] eqn:E; try (vm_compute in E; discriminate E).
    exists tr. split; [reflexivity|].
    assert (S : Forall root_named (flat_map cr_log tr) -> shape_run default_listeners [] (rc_script ex_quiet0) tr).
    { apply run_net_shape_ref; [apply quiet_case_env; reflexivity|reflexivity|exact E]. }
    vm_compute in E. inversion E; subst tr; clear E.
    split; [vm_compute; reflexivity|]. split; [vm_compute; reflexivity|]. apply S.
    cbn [flat_map cr_log app]. repeat (constructor; [cbn; try exact I; try discriminate; try reflexivity|]).
    constructor.
Qed.

(* What IS proved about the monitors: for an engine that does not mutate they accept every
   trace of the faithful model in which the notifications function 0 is told within one call
   are pairwise different ([RefMonitors.call_nodup]; for the reference semantics that is a
   consequence of C07, and [RefMonitors.life_calls_nodup] derives it from acceptance by the
   C07 monitor). *)
Lemma lst_all_In0 : forall ls, lst_all ls -> forall k, In (k, 0) ls.
Proof.
  intros ls H k. apply listeners_In. apply (count_occ_In Nat.eq_dec). rewrite (H k). lia.
Qed.

Lemma listeners_app : forall k a b, listeners_of k (a ++ b) = listeners_of k a ++ listeners_of k b.
Proof. intros. unfold listeners_of. rewrite filter_app, map_app. reflexivity. Qed.

Lemma lst_all_next_ls : forall ls c, lst_all ls -> lst_all (next_ls ls c).
Proof.
  intros ls c H. destruct c; cbn [next_ls]; try exact H.
  destruct (existsb (fun p => nkind_eqb (fst p) k && Nat.eqb (snd p) l) ls) eqn:E; [exact H|].
  intro k'. rewrite listeners_app, count_occ_app, (H k'). unfold listeners_of. cbn [filter fst].
  destruct (nkind_eqb k k') eqn:Ek; [|reflexivity]. cbn [map snd]. destruct l as [|l]; [|reflexivity].
  exfalso. apply nkind_eqb_eq in Ek. subst k'. apply (register_fresh _ _ _ E). apply lst_all_In0. exact H.
Qed.

Lemma ncall_log_0 : forall ls obs run c r,
    lst_all ls -> ncall_shape 0 ls obs run c r -> call_nodup r ->
    exists evs, cr_log r = flat_map (render ls obs) evs /\ nodupn (notifs_of evs).
Proof.
  intros ls obs run c r Hl ((evs & r0 & E & _) & _) Hn. exists (map to_aev evs).
  rewrite nrender_0_log in E. split; [exact E|].
  unfold call_nodup in Hn. rewrite E, ee_render in Hn by exact Hl. exact Hn.
Qed.

Section MonitorsPartial.
  Variable tasks : list task.
  Variable env : envcfg.
  Variable Q : quiet_env env.
  Variable M0 : ec_mutate env = 0.

  Theorem net_C20_monitor_partial : forall f cs s tr,
      lst_all (ns_ls s) ->
      net_run_script tasks env f s cs = Ok tr ->
      Forall call_nodup tr ->
      c20_run (ns_ls s) cs tr = true.
  Proof.
    intros f cs. induction cs as [|c cs IH]; intros s tr Hl H Hn; cbn [net_run_script] in H.
    - okinv H. reflexivity.
    - destruct (net_api_call tasks env f s c) as [[b s1]| | |] eqn:E; cbn [rbind] in H; try discriminate H.
      destruct (net_run_script tasks env f s1 cs) as [t| | |] eqn:E2; cbn [rbind] in H; try discriminate H.
      okinv H. inversion Hn as [|? ? Hn1 Hn2]; subst.
      destruct (net_api_shape tasks env Q _ _ _ _ _ E) as (S1 & L1 & _). rewrite M0 in S1.
      assert (IH' : c20_run (next_ls (ns_ls s) c) cs t = true).
      { rewrite <- L1. apply IH; [rewrite L1; apply lst_all_next_ls; exact Hl|exact E2|exact Hn2]. }
      destruct (ncall_log_0 _ _ _ _ _ Hl S1 Hn1) as (evs & G1 & G2).
      assert (G : c20_log (S (List.length (cr_log (net_observe b s1)))) (ns_ls s) (cr_log (net_observe b s1)) = true).
      { rewrite G1. apply c20_log_render; assumption. }
      destruct S1 as (_ & A & B). cbn [c20_run].
      destruct c as [|id| |k l|o|o]; cbn [next_ls] in IH'; try (rewrite G, IH'; reflexivity).
      rewrite (B k l eq_refl), Bool.eqb_reflx. destruct (A eq_refl) as [A1 _]. rewrite A1. cbn [andb]. exact IH'.
  Qed.

  Theorem net_C17_monitor_partial : forall f cs s tr,
      lst_all (ns_ls s) ->
      net_run_script tasks env f s cs = Ok tr ->
      Forall call_nodup tr -> Forall root_named (flat_map cr_log tr) ->
      c17_run (ns_obs s) cs tr = true.
  Proof.
    intros f cs. induction cs as [|c cs IH]; intros s tr Hl H Hn Hr; cbn [net_run_script] in H.
    - okinv H. reflexivity.
    - destruct (net_api_call tasks env f s c) as [[b s1]| | |] eqn:E; cbn [rbind] in H; try discriminate H.
      destruct (net_run_script tasks env f s1 cs) as [t| | |] eqn:E2; cbn [rbind] in H; try discriminate H.
      okinv H. inversion Hn as [|? ? Hn1 Hn2]; subst.
      cbn [flat_map] in Hr. apply Forall_app in Hr. destruct Hr as [Hr1 Hr2].
      destruct (net_api_shape tasks env Q _ _ _ _ _ E) as (S1 & L1 & L2). rewrite M0 in S1.
      assert (IH' : c17_run (next_obs (ns_obs s) c) cs t = true).
      { rewrite <- L2. apply IH; [rewrite L1; apply lst_all_next_ls; exact Hl|exact E2|exact Hn2|exact Hr2]. }
      pose proof (ncall_shape_ref _ _ _ _ _ (lst_all_In0 _ Hl) Hr1 S1) as ((evs & G1 & G3) & _).
      assert (G2 : nodupn (notifs_of evs)).
      { unfold call_nodup in Hn1. rewrite G1, ee_render in Hn1 by exact Hl. exact Hn1. }
      assert (G : c17_log (S (List.length (cr_log (net_observe b s1)))) (ns_obs s) (cr_log (net_observe b s1)) = true).
      { rewrite G1. apply (c17_log_render (ns_ls s)); assumption. }
      cbn [c17_run].
      destruct c as [|id| |k l|o|o]; cbn [next_obs] in IH'; try (rewrite G, IH'; reflexivity).
      + exact IH'.
      + unfold net_api_call in E. cbv zeta in E. change (ns_obs (s <| ns_log := [] |>)) with (ns_obs s) in E.
        destruct (remove_first (Nat.eqb o) (ns_obs s)) as [l|]; [|discriminate E]. exact IH'.
  Qed.
End MonitorsPartial.

Theorem run_net_monitors_partial : forall c tr,
    quiet_env (env_of c) -> rc_mutate c = 0 -> run_net c = Ok tr ->
    Forall call_nodup tr ->
    holds_C20 (rc_script c) tr = true /\
    (Forall root_named (flat_map cr_log tr) -> holds_C17 (rc_script c) tr = true).
Proof.
  intros c tr Q M H Hn. unfold run_net in H. destruct (rc_test_ids c); [|discriminate H].
  destruct (net_init (p_tasks (rc_prog c)) true) as [s0| | |] eqn:E; cbn [rbind] in H; try discriminate H.
  destruct (net_init_fields _ _ _ E) as (E1 & E2 & _).
  assert (Hl : lst_all (ns_ls s0)) by (rewrite E1; apply lst_all_default).
  split.
  - unfold holds_C20. rewrite <- E1. eapply net_C20_monitor_partial; eauto.
  - intro Hr. unfold holds_C17. rewrite <- E2. eapply net_C17_monitor_partial; eauto.
Qed.

(* ... in particular when the C07 monitor accepts the trace *)
Corollary run_net_monitors_from_C07 : forall c tr,
    quiet_env (env_of c) -> rc_mutate c = 0 -> run_net c = Ok tr ->
    holds_C07 (rc_script c) tr = true ->
    holds_C20 (rc_script c) tr = true /\
    (Forall root_named (flat_map cr_log tr) -> holds_C17 (rc_script c) tr = true).
Proof.
  intros c tr Q M H H7. apply run_net_monitors_partial; try assumption.
  eapply life_calls_nodup; [apply WL_life0|exact H7].
Qed.

(* NOT proved: unconditional acceptance by the executable monitors for engines that do not
   mutate.  What is missing is [call_nodup] on the faithful model (a life-cycle fact; C07 on the
   net) and, for C17, [root_named]. *)
Definition net_C20_monitor_statement : Prop :=
  forall c tr, quiet_env (env_of c) -> rc_mutate c = 0 -> run_net c = Ok tr ->
               holds_C20 (rc_script c) tr = true.
Definition net_C17_monitor_statement : Prop :=
  forall c tr, quiet_env (env_of c) -> rc_mutate c = 0 -> run_net c = Ok tr ->
               Forall root_named (flat_map cr_log tr) ->
               holds_C17 (rc_script c) tr = true.

(* NOT proved: the trace hypothesis [root_named] from a syntactic condition on the program (no
   service and no called task is named productionTask); it needs an invariant on the API
   objects and on the parallel-loop callbacks, carried through the generator. *)
Fixpoint stmt_names (s : stmt) : list name :=
  match s with
  | SService n _ _ => [n]
  | SCall c => [c_name c]
  | SParallel cs => map c_name cs
  | SWhile _ b | SCount _ _ _ b => flat_map stmt_names b
  | SCond _ p f => flat_map stmt_names p ++ flat_map stmt_names f
  end.

Definition root_named_statement : Prop :=
  forall c tr,
    (forall t, In t (p_tasks (rc_prog c)) -> ~ In production_task (flat_map stmt_names (t_body t))) ->
    run_net c = Ok tr ->
    Forall root_named (flat_map cr_log tr).

(* =========================================================================== *)
(* 8. one notification as a total equation: it cannot fail or run out of fuel    *)
(* =========================================================================== *)
Lemma listeners_length : forall k ls, List.length (listeners_of k ls) <= List.length ls.
Proof.
  intros k ls. unfold listeners_of. rewrite map_length. induction ls as [|p ls IH]; cbn; [lia|].
  destruct (nkind_eqb (fst p) k); cbn; lia.
Qed.

Lemma nbind_ok : forall A B (mm : NM A) (kk : A -> NM B) s a s1, mm s = Ok (a, s1) -> nbind mm kk s = kk a s1.
Proof. intros A B mm kk s a s1 H. unfold nbind. rewrite H. reflexivity. Qed.

Lemma nbind_nlog : forall B es (kk : unit -> NM B) s,
    nbind (nlog es) kk s = kk tt (s <| ns_log := rev es ++ ns_log s |>).
Proof. reflexivity. Qed.

Section Total.
  Variable tasks : list task.
  Variable env : envcfg.
  Variable Q : quiet_env env.

  Lemma notify_each_total : forall er k ai,
      (forall s a, nth_error (ns_apis s) ai = Some a -> er k ai s = Ok (tt, qeff env k ai a s)) ->
      forall h i s a,
        nth_error (ns_apis s) ai = Some a ->
        List.length (skipn i (listeners_of k (ns_ls s))) < h ->
        notify_each er k ai h i s = Ok (tt, each_pure env k ai (skipn i (listeners_of k (ns_ls s))) s).
  Proof.
    intros er k ai Her. induction h as [|h IH]; intros i s a Ha Hh; [lia|].
    cbn [notify_each]. fold (notify_each er k ai). rewrite nbind_nget.
    destruct (nth_error (listeners_of k (ns_ls s)) i) as [l|] eqn:El.
    2:{ rewrite (nth_error_skipn_nil _ _ _ El). reflexivity. }
    rewrite (skipn_nth _ _ _ _ El) in *. cbn [each_pure List.length] in *. rewrite Ha.
    rewrite (nbind_get_api _ _ _ _ _ Ha), nbind_nlog.
    destruct (each_step_spec env k ai l a s Ha) as (S1 & _ & _ & a1 & S4 & _).
    assert (Els : ns_ls (each_step env k ai l a s) = ns_ls s) by apply S1.
    unfold each_step in *. cbv zeta in *. destruct (Nat.eqb l 0).
    - erewrite nbind_ok; [|apply Her; exact Ha].
      rewrite (IH (S i) _ a1 S4); [rewrite Els; reflexivity|rewrite Els; lia].
    - unfold nbind at 1, nret. rewrite (IH (S i) _ a1 S4); [rewrite Els; reflexivity|rewrite Els; lia].
  Qed.

  Theorem nu_body_total : forall er k ai flag s a,
      (forall s a, nth_error (ns_apis s) ai = Some a -> er k ai s = Ok (tt, qeff env k ai a s)) ->
      nth_error (ns_apis s) ai = Some a ->
      nu_body er k ai flag s = Ok (tt, nu_pure env k ai flag s).
  Proof.
    intros er k ai flag s a Her Ha. unfold nu_body. rewrite nbind_nget.
    erewrite nbind_ok;
      [|apply (notify_each_total er k ai Her _ 0 s a Ha); cbn [skipn]; pose proof (listeners_length k (ns_ls s)); lia].
    cbn [skipn]. unfold nu_pure. cbv zeta.
    destruct (each_pure_spec env k ai (listeners_of k (ns_ls s)) s a Ha) as (_ & _ & _ & a1 & S4 & _).
    set (s1 := each_pure env k ai (listeners_of k (ns_ls s)) s) in *.
    destruct flag.
    - unfold nbind at 1, nmod.
      assert (Ha1 : nth_error (ns_apis (s1 <| ns_running := false |>)) ai = Some a1) by exact S4.
      rewrite (nbind_get_api _ _ _ _ _ Ha1), nbind_nget, Ha1. reflexivity.
    - unfold nbind at 1, nret.
      rewrite (nbind_get_api _ _ _ _ _ S4), nbind_nget, S4. reflexivity.
  Qed.

  (* notify_user with fuel >= 2, quiet engine: the result IS [nu_pure]; without the API object an
     IndexError (the model's rendering of a dangling reference, never the case for generated
     nets) *)
  Theorem notify_user_total : forall f k ai flag s a,
      nth_error (ns_apis s) ai = Some a ->
      notify_user tasks env (S (S f)) k ai flag s = Ok (tt, nu_pure env k ai flag s).
  Proof.
    intros f k ai flag s a Ha. rewrite notify_user_S. eapply nu_body_total; [|exact Ha].
    intros s0 a0 Ha0. apply engine_reacts_quiet; assumption.
  Qed.
End Total.

(* =========================================================================== *)
(* 9. what remains true for EVERY engine                                         *)
(* =========================================================================== *)
(* With completions sent from inside notifications the groups nest: the engine's reaction
   (function 0 only) runs a whole fire_event between its own entry and the entry of the next
   registered function.  The structure is still there -- every registered function is invoked
   exactly once per notification, in registration order, then every observer -- only the
   arguments need not agree any more (NetIds.second_listener_duplicates). *)

(* the frame rule with the engine as an obligation of its own *)
Section GFrame.
  Variable R : NS -> NS -> Prop.
  Variable W : qframe R.
  Variable tasks : list task.
  Variable env : envcfg.
  Variable HER : forall sfe, (forall e, fpres R (sfe e)) -> forall k a, fpres R (er_body env sfe k a).
  Variable HNU : forall er, (forall k a, fpres R (er k a)) -> nu_ok R (nu_body er).

  Theorem gframe_block : forall f,
      fpres R (evaluate tasks env f) /\
      (forall c, fpres R (run_cb tasks env f c)) /\
      (forall a, fpres R (on_task_started tasks env f a)) /\
      (forall a, fpres R (on_service_started tasks env f a)) /\
      (forall a, fpres R (on_service_finished tasks env f a)) /\
      (forall a, fpres R (on_task_finished tasks env f a)) /\
      nu_ok R (notify_user tasks env f) /\
      (forall k a, fpres R (engine_reacts tasks env f k a)) /\
      (forall ev, fpres R (sched_fire_event tasks env f ev)) /\
      (forall ev, fpres R (logic_fire_event tasks env f ev)).
  Proof.
    induction f as [|f (I1 & I2 & I3 & I4 & I5 & I6 & I7 & I8 & I9 & I10)].
    - repeat (split; [intros; intros ? ? ? HH; discriminate HH|]). split; [|split; [|split]].
      + intros k ai b s u s' HH. discriminate HH.
      + intros; intros ? ? ? HH; discriminate HH.
      + intros; intros ? ? ? HH; discriminate HH.
      + intros; intros ? ? ? HH; discriminate HH.
    - destruct (nu_ok_false _ _ I7) as (_ & _ & I7s).
      split; [|split; [|split; [|split; [|split; [|split; [|split; [|split; [|split]]]]]]]]; intros.
      + intros s a s' HH. rewrite evaluate_S in HH. eapply qp_scan_with; eauto.
      + eapply qp_ext; [intro; apply run_cb_S|]. apply qp_run_cb_body; assumption.
      + eapply qp_ext; [intro; apply on_task_started_S|]. apply qp_ots_body; assumption.
      + eapply qp_ext; [intro; apply on_service_started_S|]. apply qp_oss_body; assumption.
      + eapply qp_ext; [intro; apply on_service_finished_S|]. apply I7s.
      + eapply qp_ext; [intro; apply on_task_finished_S|]. apply qp_otf_body; assumption.
      + intros k ai b s u s' HH. rewrite notify_user_S in HH. eapply HNU; [|exact HH]. exact I8.
      + eapply qp_ext; [intro; apply engine_reacts_S|]. apply HER. exact I9.
      + eapply qp_ext; [intro; apply sched_fire_event_S'|]. apply qp_sfe_body; assumption.
      + eapply qp_ext; [intro; apply logic_fire_event_S|]. apply qp_lfe_body; assumption.
  Qed.
End GFrame.

(* well-formed log segments (oldest entry first) *)
Inductive WF (ls : list (nkind * nat)) (obs : list nat) : list entry -> Prop :=
| WF_nil : WF ls obs []
| WF_query : forall v c rest, WF ls obs rest -> WF ls obs (EQuery v c :: rest)
| WF_fire : forall id r inner rest,
    (* the engine completes another pending service from inside a notification *)
    WF ls obs inner -> WF ls obs rest -> WF ls obs (EFireIn id :: inner ++ EFireOut id r :: rest)
| WF_group : forall k fl nm id body rest,
    (* one notification: the registered functions, then the observers *)
    WFG ls obs k (listeners_of k ls) body -> WF ls obs rest ->
    WF ls obs (body ++ map (fun o => EObs o k nm id fl) obs ++ rest)
(* the entries of the registered functions L (in this order) of a notification of kind k; only
   function 0 (the engine) can make the scheduler do something in between *)
with WFG (ls : list (nkind * nat)) (obs : list nat) : nkind -> list nat -> list entry -> Prop :=
| WFG_nil : forall k, WFG ls obs k [] []
| WFG_cons : forall k l L n r inner body,
    n_kind n = k -> WF ls obs inner -> (l <> 0 -> inner = []) -> WFG ls obs k L body ->
    WFG ls obs k (l :: L) (ENotif l n r :: inner ++ body).

Scheme WF_mut := Induction for WF Sort Prop
  with WFG_mut := Induction for WFG Sort Prop.
Combined Scheme WF_WFG_ind from WF_mut, WFG_mut.

Lemma WF_app : forall ls obs a b, WF ls obs a -> WF ls obs b -> WF ls obs (a ++ b).
Proof.
  intros ls obs a b Ha Hb. induction Ha as [|v c rest Ha IH|id r inner rest H1 _ H2 IH|k fl nm id body rest H1 H2 IH].
  - exact Hb.
  - cbn. constructor. exact IH.
  - cbn. rewrite <- app_assoc. cbn. apply WF_fire; assumption.
  - rewrite <- !app_assoc. apply WF_group; assumption.
Qed.

Lemma WF_queries : forall ls obs es, queryb es = true -> WF ls obs es.
Proof.
  intros ls obs es. induction es as [|e es IH]; intro H; [constructor|].
  cbn in H. apply andb_true_iff in H. destruct H as [H1 H2]. destruct e; try discriminate H1.
  constructor. apply IH. exact H2.
Qed.

Definition GShape (s s' : NS) : Prop :=
  ns_ls s' = ns_ls s /\ ns_obs s' = ns_obs s /\
  exists seg, ns_log s' = rev seg ++ ns_log s /\ WF (ns_ls s) (ns_obs s) seg.

Lemma GShape_pure : forall s s',
    ns_ls s' = ns_ls s -> ns_obs s' = ns_obs s -> ns_log s' = ns_log s -> GShape s s'.
Proof.
  intros s s' H1 H2 H3. split; [exact H1|]. split; [exact H2|]. exists []. split; [rewrite H3; reflexivity|constructor].
Qed.

Lemma GShape_trans : forall a b c, GShape a b -> GShape b c -> GShape a c.
Proof.
  intros a b c (A1 & A2 & e1 & A3 & A4) (B1 & B2 & e2 & B3 & B4).
  split; [congruence|]. split; [congruence|]. exists (e1 ++ e2). split.
  - rewrite B3, A3, rev_app_distr, app_assoc. reflexivity.
  - apply WF_app; [exact A4|]. rewrite <- A1, <- A2. exact B4.
Qed.

Theorem GShape_qframe : qframe GShape.
Proof.
  constructor;
    try (intros; try (match goal with |- fpres _ _ => intros ? ? ? HH; inversion HH; subst; clear HH end);
         apply GShape_pure; reflexivity).
  - apply GShape_trans.
  - intros es Hq s u s' HH. inversion HH; subst; clear HH. split; [reflexivity|]. split; [reflexivity|].
    exists es. split; [reflexivity|]. apply WF_queries. exact Hq.
Qed.

Section GShapeBlock.
  Variable tasks : list task.
  Variable env : envcfg.

  (* the engine: at most an unbracketed immediate completion, then at most one bracketed
     completion of another service *)
  Lemma er_body_gshape : forall sfe, (forall e, fpres GShape (sfe e)) ->
      forall k ai, fpres GShape (er_body env sfe k ai).
  Proof.
    intros sfe Hs k ai s u s' H. unfold er_body in H.
    ninv H as a s0 E. apply get_api_inv in E. destruct E as [-> Ea].
    ninv H as u1 s1 E1.
    assert (A1 : GShape s s1) by (destruct k; okinv E1; apply GShape_pure; reflexivity).
    ninv H as u2 s2 E2.
    assert (A2 : GShape s1 s2) by (destruct k; okinv E2; apply GShape_pure; reflexivity).
    ninv H as u3 s3 E3.
    assert (A3 : GShape s2 s3).
    { destruct k; try (okinv E3; apply GShape_pure; reflexivity).
      ninv E3 as s4 s5 E4. okinv E4. ninv E3 as u4 s6 E4. okinv E4.
      destruct (ec_imm env (ns_nss s5)); [|okinv E3; apply GShape_pure; reflexivity].
      ninv E3 as b s7 E4. okinv E3. apply Hs in E4.
      eapply GShape_trans; [|exact E4]. apply GShape_pure; reflexivity. }
    ninv H as s4 s5 E4. okinv E4. ninv H as u4 s6 E4. okinv E4.
    eapply GShape_trans; [exact A1|]. eapply GShape_trans; [exact A2|]. eapply GShape_trans; [exact A3|].
    destruct (if ec_react_all env || match k with TS | SS => true | _ => false end
              then ec_react env (ns_nnot s5) else None) as [j|]; [|okinv H; apply GShape_pure; reflexivity].
    destruct (ns_pending s5) as [|p0 prest]; [okinv H; apply GShape_pure; reflexivity|].
    ninv H as u5 s7 E5. okinv E5. ninv H as r s8 E5. okinv H.
    apply Hs in E5. destruct E5 as (B1 & B2 & inner & B3 & B4). cbn in B1, B2, B3, B4.
    split; [exact B1|]. split; [exact B2|]. cbn [ns_log ns_ls ns_obs].
    eexists (EFireIn _ :: inner ++ EFireOut _ r :: []). split.
    - cbn [rev]. rewrite B3. cbn. rewrite rev_app_distr. cbn. rewrite <- !app_assoc. reflexivity.
    - apply WF_fire; [exact B4|constructor].
  Qed.

  Lemma notify_each_gshape : forall er k ai, (forall k a, fpres GShape (er k a)) ->
      forall h i s u s',
        notify_each er k ai h i s = Ok (u, s') ->
        ns_ls s' = ns_ls s /\ ns_obs s' = ns_obs s /\
        exists body, ns_log s' = rev body ++ ns_log s /\
                     WFG (ns_ls s) (ns_obs s) k (skipn i (listeners_of k (ns_ls s))) body.
  Proof.
    intros er k ai Her. induction h as [|h IH]; intros i s u s' H; [discriminate H|].
    cbn [notify_each] in H. fold (notify_each er k ai) in H.
    ninv H as s0 s1 E. okinv E.
    destruct (nth_error (listeners_of k (ns_ls s1)) i) as [l|] eqn:El.
    2:{ okinv H. rewrite (nth_error_skipn_nil _ _ _ El). repeat (split; [reflexivity|]).
        exists []. split; [reflexivity|constructor]. }
    rewrite (skipn_nth _ _ _ _ El).
    ninv H as a s2 E. apply get_api_inv in E. destruct E as [-> Ea].
    ninv H as u1 s2 E. okinv E.
    ninv H as u2 s3 E.
    assert (X : GShape (s1 <| ns_log := rev [ENotif l (notif_of s1 k a) (ns_running s1)] ++ ns_log s1 |>) s3
                /\ (l <> 0 -> ns_log s3 = ENotif l (notif_of s1 k a) (ns_running s1) :: ns_log s1)).
    { destruct (Nat.eqb l 0) eqn:El0.
      - split; [eapply Her; exact E|]. apply Nat.eqb_eq in El0. intro; congruence.
      - okinv E. split; [apply GShape_pure; reflexivity|]. intros _. reflexivity. }
    destruct X as ((B1 & B2 & inner & B3 & B4) & B5). cbn in B1, B2, B3, B4.
    apply IH in H. destruct H as (C1 & C2 & body & C3 & C4). rewrite B1, B2 in C4.
    split; [congruence|]. split; [congruence|].
    exists (ENotif l (notif_of s1 k a) (ns_running s1) :: inner ++ body). split.
    - rewrite C3, B3. cbn [rev]. rewrite rev_app_distr, <- !app_assoc. reflexivity.
    - apply WFG_cons; [reflexivity|exact B4| |exact C4].
      intro Hl. specialize (B5 Hl). rewrite B5 in B3. cbn in B3.
      assert (Y : rev inner ++ ENotif l (notif_of s1 k a) (ns_running s1) :: ns_log s1
                  = [] ++ ENotif l (notif_of s1 k a) (ns_running s1) :: ns_log s1) by (rewrite <- B3; reflexivity).
      apply app_inv_tail in Y. destruct inner as [|x inner]; [reflexivity|].
      cbn in Y. apply app_eq_nil in Y. destruct Y as [_ Y]. discriminate Y.
  Qed.

  Lemma nu_body_gshape : forall er, (forall k a, fpres GShape (er k a)) -> nu_ok GShape (nu_body er).
  Proof.
    intros er Her k ai b s u s' H _. unfold nu_body in H.
    ninv H as s0 s1 E. okinv E.
    ninv H as u1 s2 E. apply (notify_each_gshape er k ai Her) in E. cbn [skipn] in E.
    destruct E as (C1 & C2 & body & C3 & C4).
    ninv H as u2 s3 E2.
    assert (X : ns_ls s3 = ns_ls s2 /\ ns_obs s3 = ns_obs s2 /\ ns_log s3 = ns_log s2)
      by (destruct b; okinv E2; repeat split).
    destruct X as (X1 & X2 & X3). clear E2.
    ninv H as a s4 E3. apply get_api_inv in E3. destruct E3 as [E3 Ea]. subst s4.
    ninv H as s5 s6 E4. inversion E4; subst s5 s6; clear E4. inversion H; subst s'; clear H.
    split; [cbn; congruence|]. split; [cbn; congruence|].
    exists (body ++ map (fun o => EObs o k (a_name a) (ident_nat (a_uuid a)) b) (ns_obs s1) ++ []).
    split.
    - cbn [ns_log]. rewrite X3, C3, X2, C2, app_nil_r, rev_app_distr, <- app_assoc. reflexivity.
    - apply WF_group; [exact C4|constructor].
  Qed.

  Definition gshape_block :=
    gframe_block GShape GShape_qframe tasks env er_body_gshape nu_body_gshape.

  (* for every engine: the log of a fire_event is a well-formed sequence of (nested) groups *)
  Theorem sched_fire_event_gshape : forall f ev s b s',
      sched_fire_event tasks env f ev s = Ok (b, s') -> GShape s s'.
  Proof.
    intros f ev s b s' H.
    exact (proj1 (proj2 (proj2 (proj2 (proj2 (proj2 (proj2 (proj2 (proj2 (gshape_block f))))))))) ev s b s' H).
  Qed.
End GShapeBlock.

(* ---- counting: for every engine, every registered function is invoked once per notification
   (nested ones included) and every attached observer receives one entry per notification ---- *)
Definition cnt (l : nat) (k : nkind) (seg : list entry) : nat := List.length (seen l k seg).
Definition ocnt (o : nat) (k : nkind) (seg : list entry) : nat := List.length (filter (of_kind k) (obs_of o seg)).

Lemma cnt_app : forall l k a b, cnt l k (a ++ b) = cnt l k a + cnt l k b.
Proof. intros. unfold cnt. rewrite seen_app, app_length. reflexivity. Qed.
Lemma ocnt_app : forall o k a b, ocnt o k (a ++ b) = ocnt o k a + ocnt o k b.
Proof. intros. unfold ocnt. rewrite obs_of_app, filter_app, app_length. reflexivity. Qed.

Lemma cnt_notif : forall l k l0 n r x,
    cnt l k (ENotif l0 n r :: x) = (if Nat.eqb l l0 && nkind_eqb (n_kind n) k then 1 else 0) + cnt l k x.
Proof.
  intros. change (ENotif l0 n r :: x) with ([ENotif l0 n r] ++ x). rewrite cnt_app. f_equal.
  unfold cnt, seen. cbn. destruct (Nat.eqb l l0 && nkind_eqb (n_kind n) k); reflexivity.
Qed.
Lemma ocnt_notif : forall o k l0 n r x, ocnt o k (ENotif l0 n r :: x) = ocnt o k x.
Proof. reflexivity. Qed.

Lemma cnt_obs_map : forall l k k' nm id fl obs, cnt l k (map (fun o => EObs o k' nm id fl) obs) = 0.
Proof. intros. unfold cnt. change (map (fun o => EObs o k' nm id fl) obs) with (render_obs k' nm id fl obs). rewrite seen_obs. reflexivity. Qed.

Lemma filter_repeat : forall A (p : A -> bool) x c, filter p (repeat x c) = if p x then repeat x c else [].
Proof.
  intros A p x c. induction c as [|c IH]; cbn; [destruct (p x); reflexivity|].
  rewrite IH. destruct (p x); reflexivity.
Qed.

Lemma ocnt_obs_map : forall o k k' nm id fl obs,
    ocnt o k (map (fun o' => EObs o' k' nm id fl) obs) = if nkind_eqb k' k then count_occ Nat.eq_dec obs o else 0.
Proof.
  intros. unfold ocnt. change (map (fun o' => EObs o' k' nm id fl) obs) with (render_obs k' nm id fl obs).
  rewrite obs_of_obs, filter_repeat. cbn [of_kind]. destruct (nkind_eqb k' k); [apply repeat_length|reflexivity].
Qed.

Section Counting.
  Variable ls : list (nkind * nat).
  Variable obs : list nat.

  (* g = the number of notifications of kind k' inside the segment *)
  Definition counted (seg : list entry) (k' : nkind) (extra : nat -> nat) : Prop :=
    exists g, (forall l, cnt l k' seg = extra l + count_occ Nat.eq_dec (listeners_of k' ls) l * g) /\
              (forall o, ocnt o k' seg = count_occ Nat.eq_dec obs o * g).

  Lemma WF_counted :
    (forall seg, WF ls obs seg -> forall k', counted seg k' (fun _ => 0)) /\
    (forall k L body, WFG ls obs k L body ->
                      forall k', counted body k' (fun l => if nkind_eqb k k' then count_occ Nat.eq_dec L l else 0)).
  Proof.
    apply WF_WFG_ind.
    - intro k'. exists 0. split; intros; [unfold cnt|unfold ocnt]; cbn; lia.
    - intros v c rest _ IH k'. destruct (IH k') as (g & G1 & G2). exists g. split; intros; [apply G1|apply G2].
    - intros id r inner rest _ IH1 _ IH2 k'. destruct (IH1 k') as (g1 & A1 & A2). destruct (IH2 k') as (g2 & B1 & B2).
      exists (g1 + g2). split.
      + intro l. change (EFireIn id :: inner ++ EFireOut id r :: rest) with ([EFireIn id] ++ inner ++ [EFireOut id r] ++ rest).
        rewrite !cnt_app, A1, B1, Nat.mul_add_distr_l. unfold cnt. cbn. lia.
      + intro o. change (EFireIn id :: inner ++ EFireOut id r :: rest) with ([EFireIn id] ++ inner ++ [EFireOut id r] ++ rest).
        rewrite !ocnt_app, A2, B2, Nat.mul_add_distr_l. unfold ocnt. cbn. lia.
    - intros k fl nm id body rest _ IH1 _ IH2 k'. destruct (IH1 k') as (g1 & A1 & A2). destruct (IH2 k') as (g2 & B1 & B2).
      exists ((if nkind_eqb k k' then 1 else 0) + g1 + g2). split.
      + intro l. rewrite !cnt_app, A1, B1, cnt_obs_map, !Nat.mul_add_distr_l.
        destruct (nkind_eqb k k') eqn:E; [apply nkind_eqb_eq in E; subst k'|]; lia.
      + intro o. rewrite !ocnt_app, A2, B2, ocnt_obs_map, !Nat.mul_add_distr_l.
        destruct (nkind_eqb k k'); lia.
    - intros k k'. exists 0. split; intros; [unfold cnt|unfold ocnt]; cbn; destruct (nkind_eqb k k'); lia.
    - intros k l0 L n r inner body Hk _ IH1 Hin _ IH2 k'.
      destruct (IH1 k') as (g1 & A1 & A2). destruct (IH2 k') as (g2 & B1 & B2).
      exists (g1 + g2). split.
      + intro l. rewrite cnt_notif, cnt_app, A1, B1, Hk, Nat.mul_add_distr_l.
        destruct (nkind_eqb k k'); [|rewrite andb_false_r; lia]. rewrite andb_true_r.
        destruct (Nat.eq_dec l0 l) as [->|Hne].
        * rewrite Nat.eqb_refl, count_occ_cons_eq by reflexivity. lia.
        * rewrite count_occ_cons_neq by exact Hne. apply not_eq_sym in Hne. apply Nat.eqb_neq in Hne. rewrite Hne. lia.
      + intro o. rewrite ocnt_notif, ocnt_app, A2, B2, Nat.mul_add_distr_l. lia.
  Qed.

  (* for every engine: there is a number g (the notifications of kind k) such that every
     function registered for k is invoked exactly g times for kind k, a function that is not
     registered never, and every observer attached once receives exactly g entries of kind k *)
  Theorem WF_counts : forall seg k,
      WF ls obs seg -> NoDup ls ->
      exists g, (forall l, In (k, l) ls -> cnt l k seg = g) /\
                (forall l, ~ In (k, l) ls -> cnt l k seg = 0) /\
                (forall o, ocnt o k seg = count_occ Nat.eq_dec obs o * g).
  Proof.
    intros seg k H N. destruct (proj1 WF_counted seg H k) as (g & G1 & G2). exists g. split; [|split].
    - intros l Hl. rewrite G1.
      rewrite (proj1 (NoDup_count_occ' Nat.eq_dec _) (NoDup_listeners _ k N) l (In_listeners _ _ _ Hl)). lia.
    - intros l Hl. rewrite G1.
      rewrite (proj1 (count_occ_not_In Nat.eq_dec (listeners_of k ls) l)); [lia|].
      intro Hi. apply Hl. apply listeners_In. exact Hi.
    - exact G2.
  Qed.
End Counting.

Section AllEngines.
  Variable tasks : list task.
  Variable env : envcfg.

  (* one API call, any engine *)
  Theorem net_api_wf : forall f s c b s',
      net_api_call tasks env f s c = Ok (b, s') ->
      WF (ns_ls s) (ns_obs s) (cr_log (net_observe b s'))
      /\ ns_ls s' = next_ls (ns_ls s) c /\ ns_obs s' = next_obs (ns_obs s) c.
  Proof.
    intros f s c b s' H.
    assert (X : forall s0 ev r, ns_log s0 = [] -> sched_fire_event tasks env f ev s0 = Ok (r, s') ->
                                WF (ns_ls s0) (ns_obs s0) (cr_log (net_observe b s'))
                                /\ ns_ls s' = ns_ls s0 /\ ns_obs s' = ns_obs s0).
    { intros s0 ev r Hl E. apply sched_fire_event_gshape in E. destruct E as (E1 & E2 & seg & E3 & E4).
      split; [|split; assumption]. cbn [cr_log net_observe]. rewrite E3, Hl, app_nil_r, rev_involutive. exact E4. }
    unfold net_api_call in H. cbv zeta in H.
    destruct c as [|id| |k l|o|o].
    - change (ns_awaited (s <| ns_log := [] |>)) with (ns_awaited s) in H.
      destruct (existsb (event_eqb EvStart) (ns_awaited s)).
      + destruct (sched_fire_event tasks env f EvStart (s <| ns_log := [] |> <| ns_running := true |>))
          as [[r s1]| | |] eqn:E; try discriminate H. okinv H.
        exact (X _ _ _ (eq_refl : ns_log (s <| ns_log := [] |> <| ns_running := true |>) = []) E).
      + okinv H. split; [constructor|split; reflexivity].
    - exact (X _ _ _ (eq_refl : ns_log (s <| ns_log := [] |>) = []) H).
    - exact (X _ _ _ (eq_refl : ns_log (s <| ns_log := [] |>) = []) H).
    - change (ns_ls (s <| ns_log := [] |>)) with (ns_ls s) in H. cbn [next_ls next_obs].
      destruct (existsb (fun p => nkind_eqb (fst p) k && Nat.eqb (snd p) l) (ns_ls s)); okinv H;
        (split; [constructor|split; reflexivity]).
    - okinv H. split; [constructor|split; reflexivity].
    - change (ns_obs (s <| ns_log := [] |>)) with (ns_obs s) in H. cbn [next_ls next_obs].
      destruct (remove_first (Nat.eqb o) (ns_obs s)) as [l|]; [|discriminate H]. okinv H.
      split; [constructor|split; reflexivity].
  Qed.
End AllEngines.

Fixpoint wf_run (ls : list (nkind * nat)) (obs : list nat) (cs : list apicall) (tr : list callrec) : Prop :=
  match cs, tr with
  | [], [] => True
  | c :: cs', r :: tr' => WF ls obs (cr_log r) /\ wf_run (next_ls ls c) (next_obs obs c) cs' tr'
  | _, _ => False
  end.

Section AllEnginesHistories.
  Variable tasks : list task.
  Variable env : envcfg.

  (* every call of every script, any engine: a well-formed sequence of (nested) groups *)
  Theorem net_wf_run : forall f cs s tr,
      net_run_script tasks env f s cs = Ok tr -> wf_run (ns_ls s) (ns_obs s) cs tr.
  Proof.
    intros f cs. induction cs as [|c cs IH]; intros s tr H; cbn [net_run_script] in H.
    - okinv H. exact I.
    - destruct (net_api_call tasks env f s c) as [[b s1]| | |] eqn:E; cbn [rbind] in H; try discriminate H.
      destruct (net_run_script tasks env f s1 cs) as [t| | |] eqn:E2; cbn [rbind] in H; try discriminate H.
      okinv H. destruct (net_api_wf tasks env _ _ _ _ _ E) as (S1 & S2 & S3).
      cbn [wf_run]. split; [exact S1|]. rewrite <- S2, <- S3. apply IH. exact E2.
  Qed.

  (* C20 for EVERY engine: over a whole history two functions registered for the same kind are
     invoked the same number of times for it (once per notification); what can differ, with
     re-entrant completions, is what they are told *)
  Theorem net_C20_same_count_all_engines : forall f cs s tr k l l',
      NoDup (ns_ls s) -> In (k, l) (ns_ls s) -> In (k, l') (ns_ls s) ->
      net_run_script tasks env f s cs = Ok tr ->
      cnt l k (flat_map cr_log tr) = cnt l' k (flat_map cr_log tr).
  Proof.
    intros f cs. induction cs as [|c cs IH]; intros s tr k l l' N H1 H2 H; cbn [net_run_script] in H.
    - okinv H. reflexivity.
    - destruct (net_api_call tasks env f s c) as [[b s1]| | |] eqn:E; cbn [rbind] in H; try discriminate H.
      destruct (net_run_script tasks env f s1 cs) as [t| | |] eqn:E2; cbn [rbind] in H; try discriminate H.
      okinv H. cbn [flat_map]. rewrite !cnt_app.
      destruct (net_api_wf tasks env _ _ _ _ _ E) as (S1 & L1 & _).
      destruct (WF_counts _ _ _ k S1 N) as (g & G1 & _). rewrite (G1 l H1), (G1 l' H2). f_equal.
      apply (IH s1 t k l l'); [rewrite L1; apply next_ls_NoDup; exact N|rewrite L1; apply next_ls_In; exact H1
                               |rewrite L1; apply next_ls_In; exact H2|exact E2].
  Qed.

  (* C17 for EVERY engine: an observer that stays attached (once) receives, kind by kind, as many
     entries as a function registered for that kind is invoked *)
  Theorem net_C17_observer_count_all_engines : forall f cs s tr k l o,
      NoDup (ns_ls s) -> In (k, l) (ns_ls s) -> count_occ Nat.eq_dec (ns_obs s) o = 1 ->
      forallb (fun c => negb (touches o c)) cs = true ->
      net_run_script tasks env f s cs = Ok tr ->
      ocnt o k (flat_map cr_log tr) = cnt l k (flat_map cr_log tr).
  Proof.
    intros f cs. induction cs as [|c cs IH]; intros s tr k l o N H1 H2 Ht H; cbn [net_run_script] in H.
    - okinv H. reflexivity.
    - destruct (net_api_call tasks env f s c) as [[b s1]| | |] eqn:E; cbn [rbind] in H; try discriminate H.
      destruct (net_run_script tasks env f s1 cs) as [t| | |] eqn:E2; cbn [rbind] in H; try discriminate H.
      okinv H. cbn [flat_map]. rewrite ocnt_app, cnt_app.
      cbn [forallb] in Ht. apply andb_true_iff in Ht. destruct Ht as [Ht1 Ht2]. apply negb_true_iff in Ht1.
      destruct (net_api_wf tasks env _ _ _ _ _ E) as (S1 & L1 & L2).
      destruct (WF_counts _ _ _ k S1 N) as (g & G1 & _ & G3). rewrite (G1 l H1), G3, H2, Nat.mul_1_l. f_equal.
      apply (IH s1 t k l o); [rewrite L1; apply next_ls_NoDup; exact N|rewrite L1; apply next_ls_In; exact H1
                              |rewrite L2, next_obs_count by exact Ht1; exact H2|exact Ht2|exact E2].
  Qed.
End AllEnginesHistories.

Theorem run_net_wf : forall c tr, run_net c = Ok tr -> wf_run default_listeners [] (rc_script c) tr.
Proof.
  intros c tr H. unfold run_net in H. destruct (rc_test_ids c); [|discriminate H].
  destruct (net_init (p_tasks (rc_prog c)) true) as [s0| | |] eqn:E; cbn [rbind] in H; try discriminate H.
  destruct (net_init_fields _ _ _ E) as (E1 & E2 & _). rewrite <- E1, <- E2.
  exact (net_wf_run _ _ _ _ _ _ H).
Qed.

(* the two counterexamples of NetIds are instances: the log is a well-formed nesting, both
   functions are invoked twice, the observer receives two entries -- about different entities *)
Example counts_on_counterexamples :
  (exists tr, run_net second_listener_case = Ok tr /\
              wf_run default_listeners [] (rc_script second_listener_case) tr /\
              cnt 0 SS (flat_map cr_log tr) = 2 /\ cnt 1 SS (flat_map cr_log tr) = 2 /\
              seen 0 SS (flat_map cr_log tr) <> seen 1 SS (flat_map cr_log tr)) /\
  (exists tr, run_net observer_case = Ok tr /\
              wf_run default_listeners [] (rc_script observer_case) tr /\
              cnt 0 SS (flat_map cr_log tr) = 2 /\ ocnt 7 SS (flat_map cr_log tr) = 2).
Proof.
  split.
  - destruct (run_net second_listener_case) as [tr| | |] eqn:E; try (vm_compute in E; discriminate E).
    exists tr. split; [reflexivity|]. split; [exact (run_net_wf _ _ E)|].
    vm_compute in E. inversion E; subst tr; clear E.
    split; [vm_compute; reflexivity|]. split; [vm_compute; reflexivity|]. vm_compute. discriminate.
  - destruct (run_net observer_case) as [tr| | |] eqn:E; try (vm_compute in E; discriminate E).
    exists tr. split; [reflexivity|]. split; [exact (run_net_wf _ _ E)|].
    vm_compute in E. inversion E; subst tr; clear E.
    split; vm_compute; reflexivity.
Qed.
