(* MonitorsFork.v — executable trace monitors for the fork / join clauses of C03 (Parallel) and
   C06 (parallel loop), for ALL schedules.  Definitions only (model support file); theorems:
   RefC03.v.

   The monitor reads what function 0 was told and the oracle queries, call by call.  The program
   enters through [fan_at]: what fans out at an index path of the SOURCE program (a Parallel with
   n calls; a parallel loop with a literal limit; a parallel loop whose limit is read from a
   variable).  Per task instance c ([n_ctx]):

   Parallel (C03):
   (f1) the task-started notification of branch 0 of a Parallel opens a fork; the next started
        notification of instance c must be branch 1, then branch 2, ... up to n-1, and the call
        must not end before branch n-1 was started: all branches are started in one call, in
        source order (a branch index >= n is refused);
   (f2) while a branch of a Parallel is in progress nothing else is started in c; when the last
        branch in progress finishes (and no fork is open), instance c owes a continuation: a
        started notification of c or the task-finished notification of c itself, in that same
        call.
   Parallel loop (C06):
   (p1) a started notification of an instance of a parallel loop while another instance of it is
        in progress must continue a fork opened in this same call (all instances of one execution
        are started in one call);
   (p2) the number of instances: when the limit is read from a variable, the execution is opened
        by the oracle query that immediately precedes the first instance in c, N is the answer
        the oracle gives to exactly that query (index = number of queries in the whole history),
        at most N instances are started and the fork is closed (next other start of c, task-finished
        of c, next execution, end of the call) only with exactly N; with a literal limit n the
        instances started contiguously in one call are a multiple of n (executions of the same
        loop that complete synchronously cannot be told apart);  N <= 0 shows nothing in a trace;
   (p3) join as (f2).
   The index bound to the counting variable is visible only in the parameters of calls that pass
   an indexed parameter; it is not checked here (C15 compares delivered parameters). *)
From PFDL Require Export MonitorsSeq.

Inductive fan := FPar (n : nat) | FLit (n : nat) | FVar (v : name) (p : list pelem) | FNone.

Fixpoint fan_path (ss : list stmt) (p : list nat) {struct p} : fan :=
  match p with
  | [] => FNone
  | i :: rest =>
    match nth_error ss i with
    | None => FNone
    | Some (SParallel cs) => match rest with [] => FPar (List.length cs) | _ => FNone end
    | Some (SWhile _ b) => match rest with [] => FNone | _ => fan_path b rest end
    | Some (SCount false _ _ b) => match rest with [] => FNone | _ => fan_path b rest end
    | Some (SCount true _ lim _) =>
      match rest with
      | [] => match lim with LimInt n => FLit n | LimPath v pth => FVar v pth end
      | _ => FNone
      end
    | Some (SCond _ ps fs) =>
      match rest with
      | [] => FNone
      | O :: rest' => fan_path ps rest'
      | 1 :: rest' => fan_path fs rest'
      | _ => FNone
      end
    | Some _ => FNone
    end
  end.

Definition fan_at (tasks : list task) (tn : name) (p : list nat) : fan :=
  match find_task tn tasks with
  | Some t => fan_path (t_body t) p
  | None => FNone
  end.

(* what a started notification is, read off its position *)
Inductive fcls := FBranch (r : list nat) (j n : nat) | FInst (r : list nat) (f : fan) | FOther.

Definition classify (F : list nat -> fan) (tk : bool) (p : list nat) : fcls :=
  if tk then
    match unsnoc p with
    | Some (r, j) =>
      match F r with
      | FPar n => FBranch r j n
      | FNone => FOther
      | f => FInst r f
      end
    | None => FOther
    end
  else FOther.

(* the limit the oracle answers at query index [qi] *)
Definition limit_answer (orc : oracle) (qi : nat) (v : name) (p : list pelem) : option nat :=
  match orc qi v with
  | Some x => match resolve x p with
              | Ok (VNum q) => if Pos.eqb (Qden q) 1 then Some (Z.to_nat (Qnum q)) else None
              | _ => None
              end
  | None => None
  end.

Record plent := {                (* a parallel-loop fork of the current call *)
  pe_task : name; pe_pos : list nat;
  pe_cnt : nat;                  (* instances started so far *)
  pe_exp : option nat            (* N, when the limit was read from a variable *)
}.

Record forkst := {
  fk_tasks : list open_inst;                     (* task instances in progress *)
  fk_par : list (nat * (list nat * nat * nat));  (* instance -> Parallel position, next branch, arity *)
  fk_pl : list (nat * plent);                    (* instance -> parallel-loop fork *)
  fk_owe : list (nat * bool);                    (* joined in this call, continuation owed (true: parallel loop) *)
  fk_q : nat;                                    (* oracle queries so far *)
  fk_lastq : list (nat * nat)                    (* instance -> index of the query that was the last thing seen of it *)
}.

Definition fork0 : forkst :=
  {| fk_tasks := []; fk_par := []; fk_pl := []; fk_owe := []; fk_q := 0; fk_lastq := [] |}.

Definition dropk {V} (k : nat) (l : list (nat * V)) : list (nat * V) :=
  filter (fun kv => negb (Nat.eqb (fst kv) k)) l.
Definition is_none {A} (o : option A) : bool := match o with None => true | Some _ => false end.

Definition parent_is (r : list nat) (o : open_inst) : bool :=
  match unsnoc (st_path (oi_site o)) with
  | Some (r', _) => list_eqb Nat.eqb r r'
  | None => false
  end.
(* an instance / branch at parent position r of instance c is in progress *)
Definition live (c : nat) (r : list nat) (tasks : list open_inst) : bool :=
  existsb (fun o => ctx_is c o && parent_is r o) tasks.
(* a kid of c under a Parallel ([pl] = false) / a parallel loop ([pl] = true) is in progress *)
Definition fan_kid (F : list nat -> fan) (pl : bool) (c : nat) (tasks : list open_inst) : bool :=
  existsb (fun o => ctx_is c o &&
                    match unsnoc (st_path (oi_site o)) with
                    | Some (r, _) => match F r with
                                     | FPar _ => negb pl
                                     | FNone => false
                                     | _ => pl
                                     end
                    | None => false
                    end) tasks.

Section Fork.
  Variable FAN : name -> list nat -> fan.
  Variable orc : oracle.
  Variables cp cl : bool.     (* apply the Parallel rules / the parallel-loop rules *)

  (* closing a parallel-loop fork: the count is right *)
  Definition pl_ok (e : plent) : bool :=
    match pe_exp e with
    | Some N => Nat.eqb (pe_cnt e) N
    | None => match FAN (pe_task e) (pe_pos e) with
              | FLit n => Nat.eqb (Nat.modulo (pe_cnt e) n) 0
              | _ => true
              end
    end.
  Definition pl_ok_opt (o : option plent) : bool := match o with Some e => pl_ok e | None => true end.

  Definition fork_start (St : forkst) (tk : bool) (n : notif) : option forkst :=
    let tasks1 := if tk then oi_of n :: fk_tasks St else fk_tasks St in
    match n_ctx n with
    | None => Some {| fk_tasks := tasks1; fk_par := fk_par St; fk_pl := fk_pl St; fk_owe := fk_owe St;
                      fk_q := fk_q St; fk_lastq := dropk (n_id n) (fk_lastq St) |}
    | Some c =>
      let tn := st_task (n_site n) in
      let p := st_path (n_site n) in
      let pend := assoc c (fk_par St) in
      let pl := assoc c (fk_pl St) in
      let lq := assoc c (fk_lastq St) in
      let owe1 := dropk c (fk_owe St) in
      let lastq1 := dropk c (if tk then dropk (n_id n) (fk_lastq St) else fk_lastq St) in
      match classify (FAN tn) tk p with
      | FBranch r j m =>
        if (negb cp || (Nat.ltb j m &&
                        match pend with
                        | None => Nat.eqb j 0
                        | Some (r', j', m') => list_eqb Nat.eqb r r' && Nat.eqb j j' && Nat.eqb m m'
                        end))
           && (negb cl || (pl_ok_opt pl && negb (fan_kid (FAN tn) true c (fk_tasks St))))
        then Some {| fk_tasks := tasks1;
                     fk_par := if Nat.ltb (S j) m then (c, (r, S j, m)) :: dropk c (fk_par St) else dropk c (fk_par St);
                     fk_pl := dropk c (fk_pl St); fk_owe := owe1; fk_q := fk_q St; fk_lastq := lastq1 |}
        else None
      | FInst r f =>
        (* a new execution: announced by the limit query (variable limit), or nothing open yet *)
        let fresh := match f, lq with
                     | FVar _ _, Some _ => true
                     | FVar _ _, None => false
                     | _, _ => match pl with
                               | Some e => negb (Nat.eqb (pe_task e) tn && list_eqb Nat.eqb (pe_pos e) r)
                               | None => true
                               end
                     end in
        let ex := match f, lq with
                  | FVar v pth, Some qi => limit_answer orc qi v pth
                  | _, _ => None
                  end in
        let e1 := if fresh
                  then {| pe_task := tn; pe_pos := r; pe_cnt := 1; pe_exp := ex |}
                  else match pl with
                       | Some e => {| pe_task := tn; pe_pos := r; pe_cnt := S (pe_cnt e); pe_exp := pe_exp e |}
                       | None => {| pe_task := tn; pe_pos := r; pe_cnt := 1; pe_exp := None |}
                       end in
        if (negb cp || (is_none pend && negb (fan_kid (FAN tn) false c (fk_tasks St))))
           && (negb cl ||
               ((if fresh
                 then pl_ok_opt pl && negb (live c r (fk_tasks St))
                      && match f with FVar _ _ => negb (is_none ex) | _ => true end
                 else match pl with
                      | Some e => Nat.eqb (pe_task e) tn && list_eqb Nat.eqb (pe_pos e) r
                      | None => false
                      end)
                && match pe_exp e1 with Some N => Nat.leb (pe_cnt e1) N | None => true end))
        then Some {| fk_tasks := tasks1; fk_par := fk_par St; fk_pl := (c, e1) :: dropk c (fk_pl St);
                     fk_owe := owe1; fk_q := fk_q St; fk_lastq := lastq1 |}
        else None
      | FOther =>
        if (negb cp || (is_none pend && negb (fan_kid (FAN tn) false c (fk_tasks St))))
           && (negb cl || (pl_ok_opt pl && negb (fan_kid (FAN tn) true c (fk_tasks St))))
        then Some {| fk_tasks := tasks1; fk_par := fk_par St; fk_pl := dropk c (fk_pl St);
                     fk_owe := owe1; fk_q := fk_q St; fk_lastq := lastq1 |}
        else None
      end
    end.

  Definition fork_finish_task (St : forkst) (n : notif) : option forkst :=
    match remove_first (oi_eqb (oi_of n)) (fk_tasks St) with
    | None => None
    | Some rest =>
      let id := n_id n in
      if (negb cp || is_none (assoc id (fk_par St))) && (negb cl || pl_ok_opt (assoc id (fk_pl St)))
      then
        let owe1 := dropk id (fk_owe St) in
        let owe2 :=
            match n_ctx n with
            | Some c =>
              match unsnoc (st_path (n_site n)) with
              | Some (r, _) =>
                match FAN (st_task (n_site n)) r with
                | FNone => owe1
                | f => if negb (live c r rest) && is_none (assoc c (fk_par St))
                       then (c, match f with FPar _ => false | _ => true end) :: owe1
                       else owe1
                end
              | None => owe1
              end
            | None => owe1
            end in
        Some {| fk_tasks := rest; fk_par := fk_par St; fk_pl := dropk id (fk_pl St); fk_owe := owe2;
                fk_q := fk_q St;
                fk_lastq := dropk id (match n_ctx n with Some c => dropk c (fk_lastq St) | None => fk_lastq St end) |}
      else None
    end.

  Definition fork_finish_svc (St : forkst) (n : notif) : option forkst :=
    Some {| fk_tasks := fk_tasks St; fk_par := fk_par St; fk_pl := fk_pl St; fk_owe := fk_owe St; fk_q := fk_q St;
            fk_lastq := match n_ctx n with Some c => dropk c (fk_lastq St) | None => fk_lastq St end |}.

  Definition fork_notif (St : forkst) (n : notif) : option forkst :=
    match n_kind n with
    | TS => fork_start St true n
    | SS => fork_start St false n
    | TF => fork_finish_task St n
    | SF => fork_finish_svc St n
    end.

  Definition fork_entry (St : forkst) (e : entry) : option forkst :=
    match e with
    | ENotif 0 n _ => fork_notif St n
    | EQuery _ c =>
      Some {| fk_tasks := fk_tasks St; fk_par := fk_par St; fk_pl := fk_pl St; fk_owe := fk_owe St;
              fk_q := S (fk_q St); fk_lastq := (c, fk_q St) :: dropk c (fk_lastq St) |}
    | _ => Some St
    end.

  Fixpoint fork_log (St : forkst) (log : list entry) : option forkst :=
    match log with
    | [] => Some St
    | e :: t => match fork_entry St e with Some S' => fork_log S' t | None => None end
    end.

  (* at the end of a call: no fork of a Parallel is open, every parallel-loop fork has the right
     count, nobody owes a continuation *)
  Definition fork_settled (St : forkst) : bool :=
    (negb cp || (is_nil (fk_par St) && forallb (fun kb => snd kb) (fk_owe St)))
    && (negb cl || (forallb (fun ke => pl_ok_opt (assoc (fst ke) (fk_pl St))) (fk_pl St) && forallb (fun kb => negb (snd kb)) (fk_owe St))).

  Definition fork_new_call (St : forkst) : forkst :=
    {| fk_tasks := fk_tasks St; fk_par := fk_par St; fk_pl := []; fk_owe := fk_owe St; fk_q := fk_q St;
       fk_lastq := fk_lastq St |}.

  Fixpoint fork_run (St : forkst) (tr : list callrec) : bool :=
    match tr with
    | [] => true
    | r :: t =>
      match fork_log (fork_new_call St) (cr_log r) with
      | Some S' => fork_settled S' && fork_run S' t
      | None => false
      end
    end.
End Fork.

Definition holds_fork_with (FAN : name -> list nat -> fan) (orc : oracle) (cp cl : bool) (tr : list callrec) : bool :=
  fork_run FAN orc cp cl fork0 tr.

(* C03: the fork / join of Parallel statements *)
Definition mon_C03fork (c : runcase) (tr : list callrec) : bool :=
  holds_fork_with (fan_at (p_tasks (rc_prog c))) (orc_of (rc_vals c)) true false tr.
(* C06: the instances of parallel loops *)
Definition mon_C06inst (c : runcase) (tr : list callrec) : bool :=
  holds_fork_with (fan_at (p_tasks (rc_prog c))) (orc_of (rc_vals c)) false true tr.
(* both *)
Definition mon_fork (c : runcase) (tr : list callrec) : bool :=
  holds_fork_with (fan_at (p_tasks (rc_prog c))) (orc_of (rc_vals c)) true true tr.
(* C03 as applied to traces: sequencing and fork / join *)
Definition mon_C03 (c : runcase) (tr : list callrec) : bool := mon_C02seq c tr && mon_C03fork c tr.
(* C06 as applied to traces *)
Definition mon_C06 (c : runcase) (tr : list callrec) : bool := mon_C02seq c tr && mon_C06inst c tr.
