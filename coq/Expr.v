(* Expr.v — model of Scheduler.execute_expression / check_expression and of
   helpers.parse_operator, plus the reference ("ordinary arithmetic") semantics.
   Model support file: definitions only. *)
From PFDL Require Export Syntax.
From Coq Require Import String.

(* Values the execution engine returns through variable_access_function:
   Struct objects with an attribute dict, or Python numbers / booleans / strings. *)
Inductive value :=
| VNum (q : Q) | VBool (b : bool) | VStr (s : name)
| VStruct (fs : list (name * value)).

(* k-th call of variable_access_function (k counts from 0), asked for variable v *)
Definition oracle := nat -> name -> option value.

(* The Python functions of module [operator] that parse_operator can return. *)
Inductive pyop :=
| PyGt | PyGe | PyLt | PyLe | PyEq | PyNe | PyAnd_ | PyOr_ | PyAdd | PySub | PyMul | PyTruediv.

(* bool is a subclass of int in Python *)
Definition num_of (v : value) : option Q :=
  match v with
  | VNum q => Some q
  | VBool true => Some 1%Q
  | VBool false => Some 0%Q
  | _ => None
  end.

Definition Qlt_bool (a b : Q) : bool := negb (Qle_bool b a).

Definition py_cmp (f : Q -> Q -> bool) (a b : value) : res value :=
  match num_of a, num_of b with
  | Some x, Some y => Ok (VBool (f x y))
  | _, _ =>
    match a, b with
    | VStr _, VStr _ => Unsupported       (* lexicographic order of str: not modelled *)
    | _, _ => Exn TypeError
    end
  end.

Definition py_eq (a b : value) : res bool :=
  match num_of a, num_of b with
  | Some x, Some y => Ok (Qeq_bool x y)
  | _, _ =>
    match a, b with
    | VStr x, VStr y => Ok (Nat.eqb x y)
    | VStruct _, _ | _, VStruct _ => Unsupported   (* Struct.__eq__: not modelled *)
    | _, _ => Ok false
    end
  end.

Definition py_arith (f : Q -> Q -> Q) (a b : value) : res value :=
  match num_of a, num_of b with
  | Some x, Some y => Ok (VNum (f x y))
  | _, _ =>
    match a, b with
    | VStr _, VStr _ => Unsupported       (* str + str: not modelled *)
    | _, _ => Exn TypeError
    end
  end.

Definition py_apply (f : pyop) (a b : value) : res value :=
  match f with
  | PyGt => py_cmp (fun x y => Qlt_bool y x) a b
  | PyGe => py_cmp (fun x y => Qle_bool y x) a b
  | PyLt => py_cmp Qlt_bool a b
  | PyLe => py_cmp Qle_bool a b
  | PyEq => rbind (py_eq a b) (fun r => Ok (VBool r))
  | PyNe => rbind (py_eq a b) (fun r => Ok (VBool (negb r)))
  | PyAnd_ =>
    match a, b with
    | VBool x, VBool y => Ok (VBool (andb x y))
    | _, _ => Unsupported               (* bitwise & on ints, TypeError on floats *)
    end
  | PyOr_ =>
    match a, b with
    | VBool x, VBool y => Ok (VBool (orb x y))
    | _, _ => Unsupported
    end
  | PyAdd => py_arith Qplus a b
  | PySub => py_arith Qminus a b
  | PyMul => py_arith Qmult a b
  | PyTruediv =>
    match num_of a, num_of b with
    | Some x, Some y => if Qeq_bool y 0 then Exn ZeroDivisionError else Ok (VNum (Qdiv x y))
    | _, _ => Exn TypeError
    end
  end.

(* the source text of each operator as the visitor stores it in the dict *)
Definition op_token (o : binop) : string :=
  match o with
  | OLt => "<" | OLe => "<=" | OGt => ">" | OGe => ">=" | OEq => "==" | ONe => "!="
  | OAnd => "And" | OOr => "Or" | OAdd => "+" | OSub => "-" | OMul => "*" | ODiv => "/"
  end%string.

Definition optable := list (string * pyop).

Fixpoint lookup_op (s : string) (t : optable) : option pyop :=
  match t with
  | [] => None
  | (s', f) :: r => if String.eqb s s' then Some f else lookup_op s r
  end.

(* the table the model is stated against; Gen/Operators.v (regenerated from
   utils/helpers.py on every run) must be equal to it — Gen/Obligations.v *)
Definition expected_ops : optable :=
  [ (">", PyGt); (">=", PyGe); ("<", PyLt); ("<=", PyLe); ("==", PyEq); ("!=", PyNe);
    ("And", PyAnd_); ("Or", PyOr_); ("+", PyAdd); ("-", PySub); ("*", PyMul);
    ("/", PyTruediv) ]%string.

(* Python truthiness: bool(x) *)
Definition truthy (v : value) : res bool :=
  match v with
  | VNum q => Ok (negb (Qeq_bool q 0))
  | VBool b => Ok b
  | VStr _ => Unsupported
  | VStruct _ => Ok true
  end.

(* variable.attributes[...] chains *)
Fixpoint resolve (v : value) (p : list pelem) : res value :=
  match p with
  | [] => Ok v
  | e :: p' =>
    match v with
    | VStruct fs =>
      match e with
      | PF a => match assoc a fs with
                | Some v' => resolve v' p'
                | None => Exn KeyError
                end
      | _ => Exn KeyError      (* "[i]" is never a key of the attribute dict *)
      end
    | _ => Exn AttributeError  (* a number/bool/str has no .attributes *)
    end
  end.

Section Eval.
  Variable ops : optable.
  Variable orc : oracle.

  (* execute_expression; the nat threads the number of oracle calls made so far *)
  Fixpoint eval (e : expr) (k : nat) : res (value * nat) :=
    match e with
    | ENum q => Ok (VNum q, k)
    | EBool b => Ok (VBool b, k)
    | EStr s => Ok (VStr s, k)
    | EPath v p =>
      match orc k v with
      | None => Unsupported          (* the engine has no answer: outside env_ok *)
      | Some x => rbind (resolve x p) (fun r => Ok (r, S k))
      end
    | ENot e1 =>
      rbind (eval e1 k) (fun '(v, k1) =>
      rbind (truthy v) (fun b => Ok (VBool (negb b), k1)))
    | EParen e1 => eval e1 k
    | EBin o l r =>
      rbind (eval l k) (fun '(a, k1) =>
      rbind (eval r k1) (fun '(b, k2) =>
      match lookup_op (op_token o) ops with
      | None => Exn KeyError
      | Some f => rbind (py_apply f a b) (fun v => Ok (v, k2))
      end))
    end.

  (* check_expression = bool(execute_expression ...) *)
  Definition decide (e : expr) (k : nat) : res (bool * nat) :=
    rbind (eval e k) (fun '(v, k') => rbind (truthy v) (fun b => Ok (b, k'))).
End Eval.

(* ---- reference semantics: ordinary arithmetic, comparison, boolean logic ---- *)
Section Ref.
  Variable rho : name -> option value.   (* one fixed valuation *)

  Definition ref_path (v : name) (p : list pelem) : option value :=
    match rho v with
    | None => None
    | Some x => match resolve x p with Ok r => Some r | _ => None end
    end.

  Fixpoint ref_num (e : expr) : option Q :=
    match e with
    | ENum q => Some q
    | EPath v p => match ref_path v p with Some (VNum q) => Some q | _ => None end
    | EParen e1 => ref_num e1
    | EBin OAdd l r => match ref_num l, ref_num r with Some a, Some b => Some (a + b)%Q | _, _ => None end
    | EBin OSub l r => match ref_num l, ref_num r with Some a, Some b => Some (a - b)%Q | _, _ => None end
    | EBin OMul l r => match ref_num l, ref_num r with Some a, Some b => Some (a * b)%Q | _, _ => None end
    | EBin ODiv l r =>
      match ref_num l, ref_num r with
      | Some a, Some b => if Qeq_bool b 0 then None else Some (a / b)%Q
      | _, _ => None
      end
    | _ => None
    end.

  Definition ref_cmp (o : binop) (a b : Q) : option bool :=
    match o with
    | OLt => Some (Qlt_bool a b) | OLe => Some (Qle_bool a b)
    | OGt => Some (Qlt_bool b a) | OGe => Some (Qle_bool b a)
    | OEq => Some (Qeq_bool a b) | ONe => Some (negb (Qeq_bool a b))
    | _ => None
    end.

  Fixpoint ref_bool (e : expr) : option bool :=
    match e with
    | EBool b => Some b
    | EPath v p => match ref_path v p with Some (VBool b) => Some b | _ => None end
    | ENot e1 => option_map negb (ref_bool e1)
    | EParen e1 => ref_bool e1
    | EBin OAnd l r => match ref_bool l, ref_bool r with Some a, Some b => Some (a && b) | _, _ => None end
    | EBin OOr l r => match ref_bool l, ref_bool r with Some a, Some b => Some (a || b) | _, _ => None end
    | EBin o l r =>
      match ref_num l, ref_num r with
      | Some a, Some b => ref_cmp o a b
      | _, _ =>
        (* == and != between two boolean operands *)
        match o, ref_bool l, ref_bool r with
        | OEq, Some a, Some b => Some (Bool.eqb a b)
        | ONe, Some a, Some b => Some (negb (Bool.eqb a b))
        | _, _, _ => None
        end
      end
    | _ => None
    end.
End Ref.
