(* Syntax.v — abstract syntax of PFDL as produced by pfdl_tree_visitor.py (the
   [Process] object), with identifiers interned as numbers.  Model support file. *)
From PFDL Require Export Base.

(* ---- expressions (visitExpression / visitValue) ---- *)
Inductive binop := OLt | OLe | OGt | OGe | OEq | ONe | OAnd | OOr | OAdd | OSub | OMul | ODiv.

(* element of an attribute access after the leading variable:
   ".field", "[i]" (loop variable), "[3]", "[]" *)
Inductive pelem := PF (n : name) | PIdxVar (v : name) | PIdxLit (k : nat) | PIdxNone.

Inductive expr :=
| ENum (q : Q)                       (* int or float literal, possibly negative *)
| EBool (b : bool)
| EStr (s : name)                    (* string literal, interned *)
| EPath (v : name) (p : list pelem)  (* attribute access: list of strings in the code *)
| ENot (e : expr)                    (* dict(unOp="!", value=e) *)
| EParen (e : expr)                  (* dict(left="(", binOp=e, right=")") *)
| EBin (o : binop) (l r : expr).     (* dict(binOp=o, left=l, right=r) *)

(* ---- types (visitVariable_type) ---- *)
Inductive prim := TNumber | TString | TBoolean | TStructName (s : name).
Inductive alen := LenNone | LenNat (n : nat) | LenVar (v : name).
Inductive vtype := TPlain (t : prim) | TArray (t : prim) (l : alen).

(* ---- struct literals (json.loads + parse_json) ---- *)
Inductive json :=
| JNum (q : Q) | JBool (b : bool) | JStr (s : name)
| JObj (fs : list (name * json))
| JArr (es : list json).

(* ---- call parameters (visitCall_input) ---- *)
Inductive param :=
| PVar (v : name)
| PPath (v : name) (p : list pelem)
| PLit (sname : name) (j : json).

Definition outparams := list (name * vtype).

Inductive limit := LimInt (n : nat) | LimPath (v : name) (p : list pelem).

Record call := { c_name : name; c_ins : list param; c_outs : outparams }.

Inductive stmt :=
| SService (n : name) (ins : list param) (outs : outparams)
| SCall (c : call)
| SParallel (cs : list call)
| SWhile (e : expr) (body : list stmt)
| SCount (par : bool) (v : name) (lim : limit) (body : list stmt)
| SCond (e : expr) (passed failed : list stmt).

Record task := {
  t_name : name;
  t_ins : list (name * vtype);
  t_body : list stmt;
  t_outs : list name
}.

Record structdef := { s_name : name; s_attrs : list (name * vtype) }.

Record program := { p_structs : list structdef; p_tasks : list task }.

(* The name "productionTask" is interned as 0 by convention of the harness. *)
Definition production_task : name := 0.

Fixpoint find_task (n : name) (ts : list task) : option task :=
  match ts with
  | [] => None
  | t :: r => if Nat.eqb n (t_name t) then Some t else find_task n r
  end.

(* ---- decidable equalities used by executable definitions ---- *)
Definition binop_eqb (a b : binop) : bool :=
  match a, b with
  | OLt, OLt | OLe, OLe | OGt, OGt | OGe, OGe | OEq, OEq | ONe, ONe
  | OAnd, OAnd | OOr, OOr | OAdd, OAdd | OSub, OSub | OMul, OMul | ODiv, ODiv => true
  | _, _ => false
  end.

Definition pelem_eqb (a b : pelem) : bool :=
  match a, b with
  | PF x, PF y => Nat.eqb x y
  | PIdxVar x, PIdxVar y => Nat.eqb x y
  | PIdxLit x, PIdxLit y => Nat.eqb x y
  | PIdxNone, PIdxNone => true
  | _, _ => false
  end.
